//! Shared world for the node-level drivers (C03 C04 C07 C09 C11): one or more REAL nodes in one
//! process. Each node = a real `SwarmDriver` built by `NetworkBuilder::build_node` (never run: the
//! harness calls its handlers) + a `VerifNode` around its `Network` handle. The harness is the
//! scheduler (it decides when a command is served) and the transport. The payment contract is a
//! local JSON-RPC stub reached through `EvmNetwork::new_custom`.
#![allow(dead_code)]
use ant_evm::{EncodedPeerId, EvmNetwork, PaymentQuote, ProofOfPayment, QuotingMetrics, RewardsAddress};
use ant_networking::verif_hooks::{LocalSwarmCmd, NetworkSwarmCmd};
use ant_networking::{Network, NetworkBuilder, NetworkEvent, SwarmDriver};
use ant_node::verif_hooks::VerifNode;
use ant_protocol::storage::{
    try_deserialize_record, try_serialize_record, Chunk, RecordHeader, RecordKind, Scratchpad, Transaction,
};
use ant_protocol::NetworkAddress;
use ant_registers::{Permissions, Register, RegisterCrdt, RegisterOp, SignedRegister};
use bls::SecretKey;
use bytes::Bytes;
use libp2p::identity::Keypair;
use libp2p::kad::store::RecordStore;
use libp2p::kad::{Record, RecordKey};
use libp2p::{Multiaddr, PeerId};
use rand::{rngs::StdRng, Rng};
use serde_json::{json, Value};
use std::collections::BTreeSet;
use std::future::Future;
use std::io::{Read, Write};
use std::net::TcpListener;
use std::path::PathBuf;
use std::sync::{Arc, Mutex};
use std::task::Poll;
use std::time::{Duration, SystemTime};
use tokio::sync::mpsc;
use xor_name::XorName;

// ------------------------------------------------------------------------------------------
// Payment contract stub: answers eth_call(verifyPayment) with the verdict the scenario prescribes.
// calldata = selector ++ offset ++ len ++ len x (6 metrics words, rewardsAddress, quoteHash)
// result   = 3 x (quoteHash, amountPaid, isValid)
// ------------------------------------------------------------------------------------------
#[derive(Default)]
pub struct StubState {
    pub valid: bool,
    pub calls: u64,
}

pub struct EvmStub {
    pub state: Arc<Mutex<StubState>>,
    pub port: u16,
}

fn hexval(c: u8) -> u8 {
    match c {
        b'0'..=b'9' => c - b'0',
        b'a'..=b'f' => c - b'a' + 10,
        b'A'..=b'F' => c - b'A' + 10,
        _ => 0,
    }
}
fn unhex(s: &str) -> Vec<u8> {
    let s = s.trim_start_matches("0x").as_bytes();
    s.chunks(2).map(|p| (hexval(p[0]) << 4) | hexval(*p.get(1).unwrap_or(&b'0'))).collect()
}

impl EvmStub {
    pub fn start() -> Self {
        let listener = TcpListener::bind("127.0.0.1:0").expect("bind stub");
        let port = listener.local_addr().expect("addr").port();
        let state = Arc::new(Mutex::new(StubState { valid: true, calls: 0 }));
        let st = state.clone();
        std::thread::spawn(move || {
            for stream in listener.incoming() {
                let Ok(mut stream) = stream else { continue };
                let st = st.clone();
                std::thread::spawn(move || {
                    let _ = stream.set_read_timeout(Some(Duration::from_secs(5)));
                    let mut buf: Vec<u8> = vec![];
                    loop {
                        // read one HTTP request
                        let mut header_end = None;
                        loop {
                            if let Some(p) = buf.windows(4).position(|w| w == b"\r\n\r\n") {
                                header_end = Some(p + 4);
                                break;
                            }
                            let mut tmp = [0u8; 4096];
                            match stream.read(&mut tmp) {
                                Ok(0) | Err(_) => break,
                                Ok(n) => buf.extend_from_slice(&tmp[..n]),
                            }
                        }
                        let Some(he) = header_end else { return };
                        let head = String::from_utf8_lossy(&buf[..he]).to_lowercase();
                        let clen: usize = head
                            .lines()
                            .find_map(|l| l.strip_prefix("content-length:").map(|v| v.trim().parse().unwrap_or(0)))
                            .unwrap_or(0);
                        while buf.len() < he + clen {
                            let mut tmp = [0u8; 4096];
                            match stream.read(&mut tmp) {
                                Ok(0) | Err(_) => return,
                                Ok(n) => buf.extend_from_slice(&tmp[..n]),
                            }
                        }
                        let body = buf[he..he + clen].to_vec();
                        buf.drain(..he + clen);
                        let req: Value = serde_json::from_slice(&body).unwrap_or(json!({}));
                        let answer = |r: &Value| -> Value {
                            let id = r["id"].clone();
                            let method = r["method"].as_str().unwrap_or("");
                            let result = match method {
                                "eth_call" => {
                                    let p = &r["params"][0];
                                    let data = p["input"].as_str().or(p["data"].as_str()).unwrap_or("0x");
                                    let bytes = unhex(data);
                                    let mut hashes: Vec<[u8; 32]> = vec![];
                                    if bytes.len() >= 4 + 64 {
                                        let n = u64::from_be_bytes(bytes[4 + 32 + 24..4 + 64].try_into().unwrap_or([0; 8])) as usize;
                                        for i in 0..n {
                                            let off = 4 + 64 + i * 8 * 32 + 7 * 32;
                                            if bytes.len() >= off + 32 {
                                                hashes.push(bytes[off..off + 32].try_into().unwrap_or([0; 32]));
                                            }
                                        }
                                    }
                                    let mut g = st.lock().expect("stub lock");
                                    g.calls += 1;
                                    let valid = g.valid;
                                    let mut out = String::from("0x");
                                    for i in 0..3 {
                                        let h = hashes.get(i).cloned().unwrap_or([0u8; 32]);
                                        out.push_str(&hex::encode(h));
                                        out.push_str(&format!("{:064x}", 1u64)); // amountPaid
                                        out.push_str(&format!("{:064x}", if valid { 1u64 } else { 0u64 }));
                                    }
                                    json!(out)
                                }
                                "eth_chainId" => json!("0x1"),
                                "eth_blockNumber" => json!("0x1"),
                                _ => json!("0x"),
                            };
                            json!({"jsonrpc": "2.0", "id": id, "result": result})
                        };
                        let resp = if let Some(arr) = req.as_array() { Value::Array(arr.iter().map(answer).collect()) } else { answer(&req) };
                        let body = serde_json::to_vec(&resp).unwrap_or_default();
                        let head = format!("HTTP/1.1 200 OK\r\ncontent-type: application/json\r\ncontent-length: {}\r\nconnection: keep-alive\r\n\r\n", body.len());
                        if stream.write_all(head.as_bytes()).is_err() || stream.write_all(&body).is_err() {
                            return;
                        }
                    }
                });
            }
        });
        EvmStub { state, port }
    }
    pub fn network(&self) -> EvmNetwork {
        EvmNetwork::new_custom(
            &format!("http://127.0.0.1:{}", self.port),
            "0x5FbDB2315678afecb367f032d93F642f64180aa3",
            "0x8464135c8F25Da09e49BC8782676a84730C318bC",
        )
    }
    pub fn set_valid(&self, v: bool) {
        self.state.lock().expect("lock").valid = v;
    }
    pub fn calls(&self) -> u64 {
        self.state.lock().expect("lock").calls
    }
}

// ------------------------------------------------------------------------------------------
// Gate control for the store's background bodies (process-wide, see hook H2). When installed and
// `hold` is set, disk writes / deletes / flushes park until `gates_release_all`; otherwise they are
// released as soon as they arrive.
// ------------------------------------------------------------------------------------------
pub struct GateCtl {
    rx: mpsc::UnboundedReceiver<ant_networking::verif_hooks::GateEvent>,
    pub hold: bool,
    parked: Vec<ant_networking::verif_hooks::GateReq>,
}
static GATECTL: Mutex<Option<GateCtl>> = Mutex::new(None);

pub fn gates_install() {
    let rx = ant_networking::verif_hooks::install_gate_controller();
    *GATECTL.lock().expect("gate lock") = Some(GateCtl { rx, hold: false, parked: vec![] });
}
pub fn gates_hold(hold: bool) {
    if let Some(g) = GATECTL.lock().expect("gate lock").as_mut() {
        g.hold = hold;
    }
}
/// number of bodies currently parked
pub fn gates_tick() -> usize {
    use ant_networking::verif_hooks::GateEvent;
    let mut guard = GATECTL.lock().expect("gate lock");
    let Some(g) = guard.as_mut() else { return 0 };
    while let Ok(ev) = g.rx.try_recv() {
        if let GateEvent::Arrived(req) = ev {
            if g.hold { g.parked.push(req); } else { let _ = req.release.send(()); }
        }
    }
    g.parked.len()
}
pub fn gates_release_all() -> usize {
    let mut guard = GATECTL.lock().expect("gate lock");
    let Some(g) = guard.as_mut() else { return 0 };
    let n = g.parked.len();
    for req in g.parked.drain(..) {
        let _ = req.release.send(());
    }
    n
}

// ------------------------------------------------------------------------------------------
// One real node
// ------------------------------------------------------------------------------------------
pub struct NodeH {
    pub kp: Keypair,
    pub peer: PeerId,
    pub network: Network,
    pub driver: SwarmDriver,
    pub events: mpsc::Receiver<NetworkEvent>,
    pub node: VerifNode,
    pub root: PathBuf,
    /// network commands the node issued (the harness is the transport)
    pub outbox: Vec<NetworkSwarmCmd>,
    /// local commands not yet served (only used when the harness schedules them one by one)
    pub held_local: Vec<LocalSwarmCmd>,
    pub unverified: Vec<Record>,
    pub fetch_events: Vec<Vec<(PeerId, RecordKey)>>,
}

pub fn keypair(rng: &mut StdRng) -> Keypair {
    let mut seed = [0u8; 32];
    rng.fill(&mut seed);
    Keypair::ed25519_from_bytes(seed).expect("seed")
}

impl NodeH {
    pub fn new(rng: &mut StdRng, root: PathBuf, evm: EvmNetwork) -> Self {
        let kp = keypair(rng);
        Self::with_keypair(kp, root, evm)
    }
    pub fn with_keypair(kp: Keypair, root: PathBuf, evm: EvmNetwork) -> Self {
        std::fs::create_dir_all(&root).expect("root dir");
        let mut b = NetworkBuilder::new(kp.clone(), true);
        b.listen_addr("127.0.0.1:0".parse().expect("addr"));
        let (network, events, driver) = b.build_node(root.clone()).expect("build_node");
        let peer = PeerId::from(kp.public());
        let node = VerifNode::new(network.clone(), evm, RewardsAddress::default());
        NodeH { kp, peer, network, driver, events, node, root, outbox: vec![], held_local: vec![], unverified: vec![], fetch_events: vec![] }
    }

    /// Serve every pending local command through the real handler; collect network commands and events.
    pub fn serve_pending(&mut self) -> usize {
        let mut n = 0;
        gates_tick();
        while let Some(cmd) = self.driver.verif_try_recv_local_cmd() {
            let _ = self.driver.verif_handle_local_cmd(cmd);
            n += 1;
        }
        while let Some(cmd) = self.driver.verif_try_recv_network_cmd() {
            self.outbox.push(cmd);
            n += 1;
        }
        while let Ok(ev) = self.events.try_recv() {
            match ev {
                NetworkEvent::UnverifiedRecord(r) => self.unverified.push(r),
                NetworkEvent::KeysToFetchForReplication(k) => self.fetch_events.push(k),
                _ => {}
            }
            n += 1;
        }
        n
    }

    pub fn add_peer(&mut self, peer: &PeerId, port: u16) {
        let addr: Multiaddr = format!("/ip4/127.0.0.1/udp/{port}/quic-v1").parse().expect("multiaddr");
        self.driver.verif_add_peer(peer, addr);
    }

    pub fn stored(&mut self, key: &RecordKey) -> Option<Record> {
        self.driver.verif_node_store_mut().and_then(|s| s.get(key).map(|r| r.into_owned()))
    }
    pub fn listed(&mut self, key: &RecordKey) -> bool {
        self.driver
            .verif_node_store_mut()
            .map(|s| ant_networking::verif_hooks::store_contains(s, key))
            .unwrap_or(false)
    }
    pub fn all_listed(&mut self) -> Vec<RecordKey> {
        self.driver
            .verif_node_store_mut()
            .map(|s| ant_networking::verif_hooks::store_record_addresses_ref(s).keys().cloned().collect())
            .unwrap_or_default()
    }
}

/// Poll `fut` to completion while serving the node's commands (everything is served at once).
pub async fn run_serving<F: Future>(n: &mut NodeH, fut: F) -> F::Output {
    tokio::pin!(fut);
    let mut idle = 0u32;
    loop {
        if let Poll::Ready(v) = futures::poll!(&mut fut) {
            settle(n).await;
            return v;
        }
        let mut progressed = 0;
        for _ in 0..3 {
            tokio::task::yield_now().await;
            progressed += n.serve_pending();
        }
        if progressed == 0 {
            idle += 1;
            if idle > 3 {
                // waiting for real I/O (the HTTP call to the contract stub): let the reactor run
                tokio::time::sleep(Duration::from_millis(1)).await;
            }
        } else {
            idle = 0;
        }
    }
}

/// Let spawned bodies (disk writes, command sends) finish and serve what they produce.
pub async fn settle(n: &mut NodeH) {
    let mut quiet = 0;
    while quiet < 4 {
        tokio::task::yield_now().await;
        if n.serve_pending() == 0 { quiet += 1 } else { quiet = 0 }
    }
}

// ------------------------------------------------------------------------------------------
// Quotes and proofs
// ------------------------------------------------------------------------------------------
pub fn metrics() -> QuotingMetrics {
    QuotingMetrics { close_records_stored: 1, max_records: 16384, received_payment_count: 0, live_time: 10, network_density: None, network_size: Some(100) }
}

pub fn signed_quote(signer: &Keypair, claimed: &Keypair, content: XorName, age_secs: u64) -> PaymentQuote {
    let ts = SystemTime::now() - Duration::from_secs(age_secs);
    let m = metrics();
    let rewards = RewardsAddress::default();
    let bytes = PaymentQuote::bytes_for_signing(content, ts, &m, &rewards);
    PaymentQuote {
        content,
        timestamp: ts,
        quoting_metrics: m,
        rewards_address: rewards,
        pub_key: claimed.public().encode_protobuf(),
        signature: signer.sign(&bytes).expect("sign"),
    }
}

/// The six payment conditions of C03.
#[derive(Clone, Copy, Debug)]
pub struct Pay {
    pub sigs: bool,
    pub self_payee: bool,
    pub close: bool,
    pub fresh: bool,
    pub chain: bool,
    pub addr: bool,
    /// how a quote is forged when `sigs` is false: false = the claimed node's key with a signature made by another
    /// key; true = a self-consistent quote of another node (its key, its valid signature) listed under the claimed node
    pub forge_key: bool,
}
impl Pay {
    pub fn all_ok() -> Self { Pay { sigs: true, self_payee: true, close: true, fresh: true, chain: true, addr: true, forge_key: false } }
    pub fn from_json(v: &Value) -> Self {
        let b = |k: &str| v[k].as_bool().unwrap_or(true);
        Pay { sigs: b("sigs"), self_payee: b("self"), close: b("close"), fresh: b("fresh"), chain: b("chain"), addr: b("addr"), forge_key: v["forge"].as_str() == Some("key") }
    }
}

/// Build a proof with three quotes. `me` is the node under test; `near` are payees it knows as close,
/// `far` is a payee it does not know.
pub fn proof(me: &Keypair, near: &[Keypair], far: &Keypair, forger: &Keypair, content: XorName, p: Pay) -> ProofOfPayment {
    let other = XorName::from_content(b"some other address");
    let age = if p.fresh { 5 } else { 3700 };
    let mut quotes: Vec<(EncodedPeerId, PaymentQuote)> = vec![];
    // this node's quote (or, when it is not a payee, a third close payee's)
    if p.self_payee {
        let c = if p.addr { content } else { other };
        quotes.push((EncodedPeerId::from(PeerId::from(me.public())), signed_quote(me, me, c, age)));
    } else {
        quotes.push((EncodedPeerId::from(PeerId::from(near[2].public())), signed_quote(&near[2], &near[2], content, age)));
    }
    // second payee: authentic or forged signature
    let signer = if p.sigs { &near[0] } else { forger };
    let key_of = if !p.sigs && p.forge_key { forger } else { &near[0] };
    quotes.push((EncodedPeerId::from(PeerId::from(near[0].public())), signed_quote(signer, key_of, content, 5)));
    // third payee: known as close, or unknown to the node
    let third = if p.close { &near[1] } else { far };
    quotes.push((EncodedPeerId::from(PeerId::from(third.public())), signed_quote(third, third, content, 5)));
    ProofOfPayment { peer_quotes: quotes }
}

// ------------------------------------------------------------------------------------------
// Records
// ------------------------------------------------------------------------------------------
pub fn chunk_of(id: u64) -> Chunk {
    let mut b = format!("chunk content {id} ").into_bytes();
    b.extend(std::iter::repeat((id % 251) as u8).take(64));
    Chunk::new(Bytes::from(b))
}

pub fn sha256(s: &str) -> [u8; 32] {
    use sha2::Digest;
    sha2::Sha256::digest(s.as_bytes()).into()
}

/// deterministic BLS keys: hash the tag into 32 bytes until a valid scalar is found
pub fn bls_key(tag: u64) -> SecretKey {
    let mut i = 0u64;
    loop {
        if let Ok(sk) = SecretKey::from_bytes(sha256(&format!("bls key {tag} {i}"))) {
            return sk;
        }
        i += 1;
    }
}

/// scratchpad of `owner` with counter `count`; signed by `signer` (another key = invalid signature);
/// `bump` increments the counter after signing (inflated counter, invalid signature)
pub fn scratchpad(owner: &SecretKey, signer: &SecretKey, count: u64, content: u64, bump: bool) -> Scratchpad {
    let mut pad = Scratchpad::new(owner.public_key(), 0);
    let data = Bytes::from(format!("pad content {content}"));
    let mut c = 0;
    while c < count {
        c = pad.update_and_sign(data.clone(), signer);
    }
    if bump {
        pad.increment();
    }
    pad
}

pub fn transaction(owner: &SecretKey, signer: &SecretKey, id: u64) -> Transaction {
    let mut content = [0u8; 32];
    content[..8].copy_from_slice(&id.to_be_bytes());
    Transaction::new(owner.public_key(), vec![], content, vec![], signer)
}

pub fn register_base(owner: &SecretKey, meta: u64) -> SignedRegister {
    let reg = Register::new(owner.public_key(), XorName::from_content(format!("reg meta {meta}").as_bytes()), Permissions::default());
    let sig = owner.sign(reg.bytes().expect("reg bytes"));
    SignedRegister::new(reg, sig, BTreeSet::new())
}
/// same owner and label (hence the same address) but owner-signed permissions that let anyone write
pub fn register_base_alt(owner: &SecretKey, meta: u64) -> SignedRegister {
    let reg = Register::new(owner.public_key(), XorName::from_content(format!("reg meta {meta}").as_bytes()), Permissions::new_anyone_can_write());
    let sig = owner.sign(reg.bytes().expect("reg bytes"));
    SignedRegister::new(reg, sig, BTreeSet::new())
}
pub fn register_op(base: &SignedRegister, signer: &SecretKey, id: u64) -> RegisterOp {
    let mut crdt = RegisterCrdt::new(*base.address());
    let (_h, addr, node) = crdt.write(format!("entry {id}").into_bytes(), &BTreeSet::new()).expect("write");
    RegisterOp::new(addr, node, signer)
}
/// register = base + the given ops, assembled without going through add_op's checks
pub fn register_with(base: &SignedRegister, ops: Vec<RegisterOp>) -> SignedRegister {
    let (reg, sig) = (base.base_register().clone(), base.owner_signature_clone());
    SignedRegister::new(reg, sig, ops.into_iter().collect())
}

pub trait SigClone {
    fn owner_signature_clone(&self) -> bls::Signature;
}
impl SigClone for SignedRegister {
    fn owner_signature_clone(&self) -> bls::Signature {
        // SignedRegister has no accessor for the owner signature: go through serde
        let v = rmp_serde::to_vec_named(self).expect("ser");
        #[derive(serde::Deserialize)]
        struct Mirror {
            #[allow(dead_code)]
            register: Register,
            signature: bls::Signature,
            #[allow(dead_code)]
            ops: BTreeSet<RegisterOp>,
        }
        let m: Mirror = rmp_serde::from_slice(&v).expect("mirror");
        m.signature
    }
}

pub fn record(key: RecordKey, value: Vec<u8>) -> Record {
    Record { key, value, publisher: None, expires: None }
}
pub fn ser<T: serde::Serialize>(v: &T, kind: RecordKind) -> Vec<u8> {
    try_serialize_record(v, kind).expect("serialise").to_vec()
}
pub fn other_key(tag: u64) -> RecordKey {
    NetworkAddress::from_chunk_address(ant_protocol::storage::ChunkAddress::new(XorName::from_content(format!("unrelated key {tag}").as_bytes()))).to_record_key()
}

/// Decode what the store holds under `key` into abstract attributes for the trace.
pub fn describe(rec: &Option<Record>) -> Value {
    let Some(r) = rec else { return json!({"kind": "none"}) };
    let Ok(h) = RecordHeader::from_record(r) else { return json!({"kind": "unparsable"}) };
    match h.kind {
        RecordKind::Chunk => match try_deserialize_record::<Chunk>(r) {
            Ok(c) => json!({"kind": "chunk", "derived": hex::encode(NetworkAddress::from_chunk_address(*c.address()).to_record_key().as_ref()), "bytes": c.value().len()}),
            Err(_) => json!({"kind": "unparsable"}),
        },
        RecordKind::Scratchpad => match try_deserialize_record::<Scratchpad>(r) {
            Ok(p) => json!({"kind": "pad", "count": p.count(), "valid": p.is_valid(), "owner": hex::encode(p.owner().to_bytes()),
                            "derived": hex::encode(NetworkAddress::ScratchpadAddress(*p.address()).to_record_key().as_ref()),
                            "content": hex::encode(p.encrypted_data_hash().0)}),
            Err(_) => json!({"kind": "unparsable"}),
        },
        RecordKind::Transaction => match try_deserialize_record::<Vec<Transaction>>(r) {
            Ok(t) => json!({"kind": "txs", "txs": t.iter().map(|x| json!({"id": u64::from_be_bytes(x.content[..8].try_into().unwrap_or([0;8])), "valid": x.verify(), "owner": hex::encode(x.owner.to_bytes()),
                            "derived": hex::encode(NetworkAddress::from_transaction_address(x.address()).to_record_key().as_ref())})).collect::<Vec<_>>()}),
            Err(_) => json!({"kind": "unparsable"}),
        },
        RecordKind::Register => match try_deserialize_record::<SignedRegister>(r) {
            Ok(g) => json!({"kind": "reg", "verify": g.verify().is_ok(), "nops": g.ops().len(),
                            "derived": hex::encode(NetworkAddress::from_register_address(*g.address()).to_record_key().as_ref()),
                            "ops": g.ops().iter().map(|o| hex::encode(rmp_serde::to_vec(o).unwrap_or_default())).collect::<Vec<_>>()}),
            Err(_) => json!({"kind": "unparsable"}),
        },
        other => json!({"kind": format!("with-payment:{other:?}")}),
    }
}
