//! Shared world for the node-level drivers (C03 C04 C07 C09 C11): one or more REAL nodes in one
//! process. Each node = a real `SwarmDriver` built by `NetworkBuilder::build_node` (never run: the
//! harness calls its handlers) + a `VerifNode` around its `Network` handle. The harness is the
//! scheduler (it decides when a command is served) and the transport. The payment contract is a
//! local JSON-RPC stub reached through `EvmNetwork::new_custom`.
#![allow(dead_code)]
use ant_evm::{EncodedPeerId, EvmNetwork, PaymentQuote, ProofOfPayment, QuotingMetrics, RewardsAddress};
use ant_networking::verif_hooks::{LocalSwarmCmd, NetworkSwarmCmd};
use ant_networking::{Network, NetworkBuilder, NetworkEvent, SwarmDriver};
use ant_node::verif_hooks::VerifNode;
use ant_protocol::storage::{
    try_deserialize_record, try_serialize_record, Chunk, RecordHeader, RecordKind, Scratchpad, Transaction,
};
use ant_protocol::NetworkAddress;
use ant_registers::{Permissions, Register, RegisterCrdt, RegisterOp, SignedRegister};
use bls::SecretKey;
use bytes::Bytes;
use libp2p::identity::Keypair;
use libp2p::kad::store::RecordStore;
use libp2p::kad::{Record, RecordKey};
use libp2p::{Multiaddr, PeerId};
use rand::{rngs::StdRng, Rng};
use serde_json::{json, Value};
use std::collections::BTreeSet;
use std::future::Future;
use std::io::{Read, Write};
use std::net::TcpListener;
use std::path::PathBuf;
use std::sync::{Arc, Mutex};
use std::task::Poll;
use std::time::{Duration, SystemTime};
use tokio::sync::mpsc;
use xor_name::XorName;

// ------------------------------------------------------------------------------------------
// Payment contract stub: answers eth_call(verifyPayment) with the verdict the scenario prescribes.
// calldata = selector ++ offset ++ len ++ len x (6 metrics words, rewardsAddress, quoteHash)
// result   = 3 x (quoteHash, amountPaid, isValid)
// ------------------------------------------------------------------------------------------
#[derive(Default)]
pub struct StubState {
    pub valid: bool,
    pub calls: u64,
    /// per-INPUT-index verdict (isValid, amountPaid) for the entries of the next verifyPayment calls; `None` = the legacy
    /// behaviour (every result carries the global `valid` flag and amountPaid 1). Inputs without an entry are invalid/unpaid.
    pub verdicts: Option<Vec<(bool, u64)>>,
    /// which input indexes fill the three result slots (default: the first three inputs, in order)
    pub pick: Option<Vec<usize>>,
    /// how the contract misbehaves on eth_call: "jsonrpcError" | "http500" | "emptyResult" | "shortData" | "closeSocket"
    pub fail: Option<String>,
    /// what the node sent: per eth_call the decoded (quoteHash, six metrics words, rewardsAddress) triples, hex, in calldata order
    pub received: Vec<Vec<(String, String, String)>>,
    /// eth_call requests whose calldata did not have the shape of verifyPayment(PaymentVerification[])
    pub undecodable: u64,
}

pub struct EvmStub {
    pub state: Arc<Mutex<StubState>>,
    pub port: u16,
}

fn hexval(c: u8) -> u8 {
    match c {
        b'0'..=b'9' => c - b'0',
        b'a'..=b'f' => c - b'a' + 10,
        b'A'..=b'F' => c - b'A' + 10,
        _ => 0,
    }
}
fn unhex(s: &str) -> Vec<u8> {
    let s = s.trim_start_matches("0x").as_bytes();
    s.chunks(2).map(|p| (hexval(p[0]) << 4) | hexval(*p.get(1).unwrap_or(&b'0'))).collect()
}

impl EvmStub {
    pub fn start() -> Self {
        let listener = TcpListener::bind("127.0.0.1:0").expect("bind stub");
        let port = listener.local_addr().expect("addr").port();
        let state = Arc::new(Mutex::new(StubState { valid: true, ..Default::default() }));
        let st = state.clone();
        std::thread::spawn(move || {
            for stream in listener.incoming() {
                let Ok(mut stream) = stream else { continue };
                let st = st.clone();
                std::thread::spawn(move || {
                    let _ = stream.set_read_timeout(Some(Duration::from_secs(5)));
                    let mut buf: Vec<u8> = vec![];
                    loop {
                        // read one HTTP request
                        let mut header_end = None;
                        loop {
                            if let Some(p) = buf.windows(4).position(|w| w == b"\r\n\r\n") {
                                header_end = Some(p + 4);
                                break;
                            }
                            let mut tmp = [0u8; 4096];
                            match stream.read(&mut tmp) {
                                Ok(0) | Err(_) => break,
                                Ok(n) => buf.extend_from_slice(&tmp[..n]),
                            }
                        }
                        let Some(he) = header_end else { return };
                        let head = String::from_utf8_lossy(&buf[..he]).to_lowercase();
                        let clen: usize = head
                            .lines()
                            .find_map(|l| l.strip_prefix("content-length:").map(|v| v.trim().parse().unwrap_or(0)))
                            .unwrap_or(0);
                        while buf.len() < he + clen {
                            let mut tmp = [0u8; 4096];
                            match stream.read(&mut tmp) {
                                Ok(0) | Err(_) => return,
                                Ok(n) => buf.extend_from_slice(&tmp[..n]),
                            }
                        }
                        let body = buf[he..he + clen].to_vec();
                        buf.drain(..he + clen);
                        let req: Value = serde_json::from_slice(&body).unwrap_or(json!({}));
                        // transport-level misbehaviour of the contract endpoint (only for a single eth_call request)
                        if req["method"].as_str() == Some("eth_call") {
                            let fail = st.lock().expect("stub lock").fail.clone();
                            if let Some(f) = fail.as_deref().filter(|f| matches!(*f, "http500" | "closeSocket" | "jsonrpcError")) {
                                {
                                    let p = &req["params"][0];
                                    let data = p["input"].as_str().or(p["data"].as_str()).unwrap_or("0x");
                                    let mut g = st.lock().expect("stub lock");
                                    g.calls += 1;
                                    match decode_verify_calldata(&unhex(data)) { Some(t) => g.received.push(t), None => g.undecodable += 1 }
                                }
                                match f {
                                    "closeSocket" => return,
                                    "http500" => {
                                        let b = b"internal error";
                                        let head = format!("HTTP/1.1 500 Internal Server Error\r\ncontent-type: text/plain\r\ncontent-length: {}\r\nconnection: close\r\n\r\n", b.len());
                                        let _ = stream.write_all(head.as_bytes());
                                        let _ = stream.write_all(b);
                                        return;
                                    }
                                    _ => {
                                        let resp = json!({"jsonrpc": "2.0", "id": req["id"].clone(), "error": {"code": -32000, "message": "execution reverted"}});
                                        let body = serde_json::to_vec(&resp).unwrap_or_default();
                                        let head = format!("HTTP/1.1 200 OK\r\ncontent-type: application/json\r\ncontent-length: {}\r\nconnection: keep-alive\r\n\r\n", body.len());
                                        if stream.write_all(head.as_bytes()).is_err() || stream.write_all(&body).is_err() { return; }
                                        continue;
                                    }
                                }
                            }
                        }
                        let answer = |r: &Value| -> Value {
                            let id = r["id"].clone();
                            let method = r["method"].as_str().unwrap_or("");
                            let result = match method {
                                "eth_call" => {
                                    let p = &r["params"][0];
                                    let data = p["input"].as_str().or(p["data"].as_str()).unwrap_or("0x");
                                    let bytes = unhex(data);
                                    let mut hashes: Vec<[u8; 32]> = vec![];
                                    if bytes.len() >= 4 + 64 {
                                        let n = u64::from_be_bytes(bytes[4 + 32 + 24..4 + 64].try_into().unwrap_or([0; 8])) as usize;
                                        for i in 0..n {
                                            let off = 4 + 64 + i * 8 * 32 + 7 * 32;
                                            if bytes.len() >= off + 32 {
                                                hashes.push(bytes[off..off + 32].try_into().unwrap_or([0; 32]));
                                            }
                                        }
                                    }
                                    let mut g = st.lock().expect("stub lock");
                                    g.calls += 1;
                                    match decode_verify_calldata(&bytes) { Some(t) => g.received.push(t), None => g.undecodable += 1 }
                                    // drivers that never look at the calldata: keep only the latest calls
                                    if g.received.len() > 256 { g.received.drain(..128); }
                                    let valid = g.valid;
                                    let mut out = String::from("0x");
                                    for slot in 0..3 {
                                        // the input entry answered in this result slot
                                        let i = g.pick.as_ref().map(|p| p.get(slot).cloned().unwrap_or(usize::MAX)).unwrap_or(slot);
                                        let h = hashes.get(i).cloned().unwrap_or([0u8; 32]);
                                        let (ok, amount) = match &g.verdicts {
                                            None => (valid, 1u64),
                                            // a slot no input fills keeps Solidity's zero values (invalid, nothing paid)
                                            Some(v) => if i < hashes.len() { v.get(i).cloned().unwrap_or((false, 0)) } else { (false, 0) },
                                        };
                                        out.push_str(&hex::encode(h));
                                        out.push_str(&format!("{:064x}", amount)); // amountPaid
                                        out.push_str(&format!("{:064x}", if ok { 1u64 } else { 0u64 }));
                                    }
                                    match g.fail.as_deref() {
                                        Some("emptyResult") => json!("0x"),
                                        // two and a half result entries
                                        Some("shortData") => json!(out[..2 + 5 * 64].to_string()),
                                        _ => json!(out),
                                    }
                                }
                                "eth_chainId" => json!("0x1"),
                                "eth_blockNumber" => json!("0x1"),
                                _ => json!("0x"),
                            };
                            json!({"jsonrpc": "2.0", "id": id, "result": result})
                        };
                        let resp = if let Some(arr) = req.as_array() { Value::Array(arr.iter().map(answer).collect()) } else { answer(&req) };
                        let body = serde_json::to_vec(&resp).unwrap_or_default();
                        let head = format!("HTTP/1.1 200 OK\r\ncontent-type: application/json\r\ncontent-length: {}\r\nconnection: keep-alive\r\n\r\n", body.len());
                        if stream.write_all(head.as_bytes()).is_err() || stream.write_all(&body).is_err() {
                            return;
                        }
                    }
                });
            }
        });
        EvmStub { state, port }
    }
    pub fn network(&self) -> EvmNetwork {
        EvmNetwork::new_custom(
            &format!("http://127.0.0.1:{}", self.port),
            "0x5FbDB2315678afecb367f032d93F642f64180aa3",
            "0x8464135c8F25Da09e49BC8782676a84730C318bC",
        )
    }
    pub fn set_valid(&self, v: bool) {
        self.state.lock().expect("lock").valid = v;
    }
    pub fn calls(&self) -> u64 {
        self.state.lock().expect("lock").calls
    }
    /// Prescribe the contract's behaviour for the next calls: per-input verdicts, result slots, failure mode.
    pub fn prescribe(&self, verdicts: Option<Vec<(bool, u64)>>, pick: Option<Vec<usize>>, fail: Option<String>) {
        let mut g = self.state.lock().expect("lock");
        g.verdicts = verdicts;
        g.pick = pick;
        g.fail = fail;
    }
    /// Take (and forget) what the node sent since the last call of this function.
    pub fn take_received(&self) -> (Vec<Vec<(String, String, String)>>, u64) {
        let mut g = self.state.lock().expect("lock");
        let u = g.undecodable;
        g.undecodable = 0;
        (std::mem::take(&mut g.received), u)
    }
}

/// Decode the calldata of verifyPayment(PaymentVerification[]): selector ++ offset ++ length ++ length x
/// (closeRecordsStored, maxRecords, receivedPaymentCount, liveTime, networkDensity, networkSize, rewardsAddress, quoteHash).
/// Returns per entry (quoteHash, the six metrics words concatenated, rewardsAddress (20 bytes)) in hex; `None` when the
/// data does not have exactly that shape.
pub fn decode_verify_calldata(bytes: &[u8]) -> Option<Vec<(String, String, String)>> {
    if bytes.len() < 4 + 64 { return None; }
    let word = |i: usize| -> &[u8] { &bytes[4 + i * 32..4 + (i + 1) * 32] };
    if word(0)[..24].iter().any(|b| *b != 0) || u64::from_be_bytes(word(0)[24..].try_into().ok()?) != 32 { return None; }
    if word(1)[..24].iter().any(|b| *b != 0) { return None; }
    let n = u64::from_be_bytes(word(1)[24..].try_into().ok()?) as usize;
    if bytes.len() != 4 + 64 + n * 8 * 32 { return None; }
    let mut out = vec![];
    for i in 0..n {
        let base = 2 + i * 8;
        let metrics: String = (0..6).map(|k| hex::encode(word(base + k))).collect();
        let addr_word = word(base + 6);
        if addr_word[..12].iter().any(|b| *b != 0) { return None; }
        out.push((hex::encode(word(base + 7)), metrics, hex::encode(&addr_word[12..])));
    }
    Some(out)
}

// ------------------------------------------------------------------------------------------
// Keccak-256, written out here so that the driver's expectation of a quote hash does not go through the code
// under test (evmlib::cryptography::hash) nor through the library it uses. Checked against two known digests
// by `keccak_selftest`.
// ------------------------------------------------------------------------------------------
pub fn keccak256(data: &[u8]) -> [u8; 32] {
    const RC: [u64; 24] = [
        0x0000000000000001, 0x0000000000008082, 0x800000000000808a, 0x8000000080008000, 0x000000000000808b, 0x0000000080000001,
        0x8000000080008081, 0x8000000000008009, 0x000000000000008a, 0x0000000000000088, 0x0000000080008009, 0x000000008000000a,
        0x000000008000808b, 0x800000000000008b, 0x8000000000008089, 0x8000000000008003, 0x8000000000008002, 0x8000000000000080,
        0x000000000000800a, 0x800000008000000a, 0x8000000080008081, 0x8000000000008080, 0x0000000080000001, 0x8000000080008008,
    ];
    const ROTC: [u32; 24] = [1, 3, 6, 10, 15, 21, 28, 36, 45, 55, 2, 14, 27, 41, 56, 8, 25, 43, 62, 18, 39, 61, 20, 44];
    const PILN: [usize; 24] = [10, 7, 11, 17, 18, 3, 5, 16, 8, 21, 24, 4, 15, 23, 19, 13, 12, 2, 20, 14, 22, 9, 6, 1];
    fn f(st: &mut [u64; 25]) {
        for rc in RC.iter() {
            let mut bc = [0u64; 5];
            for i in 0..5 { bc[i] = st[i] ^ st[i + 5] ^ st[i + 10] ^ st[i + 15] ^ st[i + 20]; }
            for i in 0..5 {
                let t = bc[(i + 4) % 5] ^ bc[(i + 1) % 5].rotate_left(1);
                for j in (0..25).step_by(5) { st[j + i] ^= t; }
            }
            let mut t = st[1];
            for i in 0..24 {
                let j = PILN[i];
                let b = st[j];
                st[j] = t.rotate_left(ROTC[i]);
                t = b;
            }
            for j in (0..25).step_by(5) {
                let mut row = [0u64; 5];
                row.copy_from_slice(&st[j..j + 5]);
                for i in 0..5 { st[j + i] ^= (!row[(i + 1) % 5]) & row[(i + 2) % 5]; }
            }
            st[0] ^= *rc;
        }
    }
    const RATE: usize = 136;
    let mut st = [0u64; 25];
    let mut padded = data.to_vec();
    padded.push(0x01);
    while padded.len() % RATE != 0 { padded.push(0); }
    let last = padded.len() - 1;
    padded[last] |= 0x80;
    for block in padded.chunks(RATE) {
        for (i, lane) in block.chunks(8).enumerate() {
            st[i] ^= u64::from_le_bytes(lane.try_into().expect("lane"));
        }
        f(&mut st);
    }
    let mut out = [0u8; 32];
    for i in 0..4 { out[i * 8..(i + 1) * 8].copy_from_slice(&st[i].to_le_bytes()); }
    out
}
pub fn keccak_selftest() -> bool {
    hex::encode(keccak256(b"")) == "c5d2460186f7233c927e7db2dcc703c0e500b653ca82273b7bfad8045d85a470"
        && hex::encode(keccak256(b"abc")) == "4e03657aea45a94fc7d47ba826c8d667c0d1e6e33a64a036ec44f58fa12d6c45"
        // more than one block: against the library the code under test uses (a self-test of THIS implementation only)
        && (0..4usize).all(|k| { let v: Vec<u8> = (0..(135 + k * 67)).map(|i| (i * 7 + k) as u8).collect(); keccak256(&v) == evmlib::cryptography::hash(&v).0 })
}

// ------------------------------------------------------------------------------------------
// Gate control for the store's background bodies (process-wide, see hook H2). When installed and
// `hold` is set, disk writes / deletes / flushes park until `gates_release_all`; otherwise they are
// released as soon as they arrive.
// ------------------------------------------------------------------------------------------
pub struct GateCtl {
    rx: mpsc::UnboundedReceiver<ant_networking::verif_hooks::GateEvent>,
    pub hold: bool,
    parked: Vec<ant_networking::verif_hooks::GateReq>,
}
static GATECTL: Mutex<Option<GateCtl>> = Mutex::new(None);

pub fn gates_install() {
    let rx = ant_networking::verif_hooks::install_gate_controller();
    *GATECTL.lock().expect("gate lock") = Some(GateCtl { rx, hold: false, parked: vec![] });
}
pub fn gates_hold(hold: bool) {
    if let Some(g) = GATECTL.lock().expect("gate lock").as_mut() {
        g.hold = hold;
    }
}
/// number of bodies currently parked
pub fn gates_tick() -> usize {
    use ant_networking::verif_hooks::GateEvent;
    let mut guard = GATECTL.lock().expect("gate lock");
    let Some(g) = guard.as_mut() else { return 0 };
    while let Ok(ev) = g.rx.try_recv() {
        if let GateEvent::Arrived(req) = ev {
            if g.hold { g.parked.push(req); } else { let _ = req.release.send(()); }
        }
    }
    g.parked.len()
}
pub fn gates_release_all() -> usize {
    let mut guard = GATECTL.lock().expect("gate lock");
    let Some(g) = guard.as_mut() else { return 0 };
    let n = g.parked.len();
    for req in g.parked.drain(..) {
        let _ = req.release.send(());
    }
    n
}

// ------------------------------------------------------------------------------------------
// One real node
// ------------------------------------------------------------------------------------------
pub struct NodeH {
    pub kp: Keypair,
    pub peer: PeerId,
    pub network: Network,
    pub driver: SwarmDriver,
    pub events: mpsc::Receiver<NetworkEvent>,
    pub node: VerifNode,
    pub root: PathBuf,
    /// network commands the node issued (the harness is the transport)
    pub outbox: Vec<NetworkSwarmCmd>,
    /// local commands not yet served (only used when the harness schedules them one by one)
    pub held_local: Vec<LocalSwarmCmd>,
    pub unverified: Vec<Record>,
    pub fetch_events: Vec<Vec<(PeerId, RecordKey)>>,
}

pub fn keypair(rng: &mut StdRng) -> Keypair {
    let mut seed = [0u8; 32];
    rng.fill(&mut seed);
    Keypair::ed25519_from_bytes(seed).expect("seed")
}

impl NodeH {
    pub fn new(rng: &mut StdRng, root: PathBuf, evm: EvmNetwork) -> Self {
        let kp = keypair(rng);
        Self::with_keypair(kp, root, evm)
    }
    pub fn with_keypair(kp: Keypair, root: PathBuf, evm: EvmNetwork) -> Self {
        std::fs::create_dir_all(&root).expect("root dir");
        let mut b = NetworkBuilder::new(kp.clone(), true);
        b.listen_addr("127.0.0.1:0".parse().expect("addr"));
        let (network, events, driver) = b.build_node(root.clone()).expect("build_node");
        let peer = PeerId::from(kp.public());
        let node = VerifNode::new(network.clone(), evm, RewardsAddress::default());
        NodeH { kp, peer, network, driver, events, node, root, outbox: vec![], held_local: vec![], unverified: vec![], fetch_events: vec![] }
    }

    /// Serve every pending local command through the real handler; collect network commands and events.
    pub fn serve_pending(&mut self) -> usize {
        let mut n = 0;
        gates_tick();
        while let Some(cmd) = self.driver.verif_try_recv_local_cmd() {
            let _ = self.driver.verif_handle_local_cmd(cmd);
            n += 1;
        }
        while let Some(cmd) = self.driver.verif_try_recv_network_cmd() {
            self.outbox.push(cmd);
            n += 1;
        }
        while let Ok(ev) = self.events.try_recv() {
            match ev {
                NetworkEvent::UnverifiedRecord(r) => self.unverified.push(r),
                NetworkEvent::KeysToFetchForReplication(k) => self.fetch_events.push(k),
                _ => {}
            }
            n += 1;
        }
        n
    }

    pub fn add_peer(&mut self, peer: &PeerId, port: u16) {
        let addr: Multiaddr = format!("/ip4/127.0.0.1/udp/{port}/quic-v1").parse().expect("multiaddr");
        self.driver.verif_add_peer(peer, addr);
    }

    pub fn stored(&mut self, key: &RecordKey) -> Option<Record> {
        self.driver.verif_node_store_mut().and_then(|s| s.get(key).map(|r| r.into_owned()))
    }
    pub fn listed(&mut self, key: &RecordKey) -> bool {
        self.driver
            .verif_node_store_mut()
            .map(|s| ant_networking::verif_hooks::store_contains(s, key))
            .unwrap_or(false)
    }
    pub fn all_listed(&mut self) -> Vec<RecordKey> {
        self.driver
            .verif_node_store_mut()
            .map(|s| ant_networking::verif_hooks::store_record_addresses_ref(s).keys().cloned().collect())
            .unwrap_or_default()
    }
}

/// Poll `fut` to completion while serving the node's commands (everything is served at once).
pub async fn run_serving<F: Future>(n: &mut NodeH, fut: F) -> F::Output {
    tokio::pin!(fut);
    let mut idle = 0u32;
    loop {
        if let Poll::Ready(v) = futures::poll!(&mut fut) {
            settle(n).await;
            return v;
        }
        let mut progressed = 0;
        for _ in 0..3 {
            tokio::task::yield_now().await;
            progressed += n.serve_pending();
        }
        if progressed == 0 {
            idle += 1;
            if idle > 3 {
                // waiting for real I/O (the HTTP call to the contract stub): let the reactor run
                tokio::time::sleep(Duration::from_millis(1)).await;
            }
        } else {
            idle = 0;
        }
    }
}

/// Let spawned bodies (disk writes, command sends) finish and serve what they produce.
pub async fn settle(n: &mut NodeH) {
    let mut quiet = 0;
    while quiet < 4 {
        tokio::task::yield_now().await;
        if n.serve_pending() == 0 { quiet += 1 } else { quiet = 0 }
    }
}

// ------------------------------------------------------------------------------------------
// Quotes and proofs
// ------------------------------------------------------------------------------------------
pub fn metrics() -> QuotingMetrics {
    QuotingMetrics { close_records_stored: 1, max_records: 16384, received_payment_count: 0, live_time: 10, network_density: None, network_size: Some(100) }
}

pub fn signed_quote(signer: &Keypair, claimed: &Keypair, content: XorName, age_secs: u64) -> PaymentQuote {
    let ts = SystemTime::now() - Duration::from_secs(age_secs);
    let m = metrics();
    let rewards = RewardsAddress::default();
    let bytes = PaymentQuote::bytes_for_signing(content, ts, &m, &rewards);
    PaymentQuote {
        content,
        timestamp: ts,
        quoting_metrics: m,
        rewards_address: rewards,
        pub_key: claimed.public().encode_protobuf(),
        signature: signer.sign(&bytes).expect("sign"),
    }
}

/// The six payment conditions of C03.
#[derive(Clone, Copy, Debug)]
pub struct Pay {
    pub sigs: bool,
    pub self_payee: bool,
    pub close: bool,
    pub fresh: bool,
    pub chain: bool,
    pub addr: bool,
    /// how a quote is forged when `sigs` is false: false = the claimed node's key with a signature made by another
    /// key; true = a self-consistent quote of another node (its key, its valid signature) listed under the claimed node
    pub forge_key: bool,
}
impl Pay {
    pub fn all_ok() -> Self { Pay { sigs: true, self_payee: true, close: true, fresh: true, chain: true, addr: true, forge_key: false } }
    pub fn from_json(v: &Value) -> Self {
        let b = |k: &str| v[k].as_bool().unwrap_or(true);
        Pay { sigs: b("sigs"), self_payee: b("self"), close: b("close"), fresh: b("fresh"), chain: b("chain"), addr: b("addr"), forge_key: v["forge"].as_str() == Some("key") }
    }
}

/// Build a proof with three quotes. `me` is the node under test; `near` are payees it knows as close,
/// `far` is a payee it does not know.
pub fn proof(me: &Keypair, near: &[Keypair], far: &Keypair, forger: &Keypair, content: XorName, p: Pay) -> ProofOfPayment {
    let other = XorName::from_content(b"some other address");
    let age = if p.fresh { 5 } else { 3700 };
    let mut quotes: Vec<(EncodedPeerId, PaymentQuote)> = vec![];
    // this node's quote (or, when it is not a payee, a third close payee's)
    if p.self_payee {
        let c = if p.addr { content } else { other };
        quotes.push((EncodedPeerId::from(PeerId::from(me.public())), signed_quote(me, me, c, age)));
    } else {
        quotes.push((EncodedPeerId::from(PeerId::from(near[2].public())), signed_quote(&near[2], &near[2], content, age)));
    }
    // second payee: authentic or forged signature
    let signer = if p.sigs { &near[0] } else { forger };
    let key_of = if !p.sigs && p.forge_key { forger } else { &near[0] };
    quotes.push((EncodedPeerId::from(PeerId::from(near[0].public())), signed_quote(signer, key_of, content, 5)));
    // third payee: known as close, or unknown to the node
    let third = if p.close { &near[1] } else { far };
    quotes.push((EncodedPeerId::from(PeerId::from(third.public())), signed_quote(third, third, content, 5)));
    ProofOfPayment { peer_quotes: quotes }
}

// ------------------------------------------------------------------------------------------
// Extended proofs (C03 review items 1-3, 6): every quote carries its own metrics and rewards address; the failing
// condition can sit in any quote position; this node's quote can sit at any index; proofs with duplicated payees,
// two quotes of this node, and 1 / 2 / 4 / 5 quotes.
// ------------------------------------------------------------------------------------------
/// metrics with six pairwise different field values, different for every `i`
pub fn metrics_for(i: u64) -> QuotingMetrics {
    QuotingMetrics {
        close_records_stored: (3 + 11 * i) as usize,
        max_records: (16384 + 13 * i) as usize,
        received_payment_count: (5 + 17 * i) as usize,
        live_time: 1000 + 19 * i,
        network_density: if i % 3 == 2 { None } else { Some(sha256(&format!("density {i}"))) },
        network_size: if i % 4 == 3 { None } else { Some(100_000 + 23 * i) },
    }
}
pub fn rewards_for(i: u64) -> RewardsAddress {
    let h = sha256(&format!("rewards address {i}"));
    RewardsAddress::from_slice(&h[..20])
}
pub fn signed_quote_with(signer: &Keypair, claimed: &Keypair, content: XorName, age_secs: u64, m: QuotingMetrics, rewards: RewardsAddress) -> PaymentQuote {
    let ts = SystemTime::now() - Duration::from_secs(age_secs);
    let bytes = PaymentQuote::bytes_for_signing(content, ts, &m, &rewards);
    PaymentQuote { content, timestamp: ts, quoting_metrics: m, rewards_address: rewards, pub_key: claimed.public().encode_protobuf(), signature: signer.sign(&bytes).expect("sign") }
}
/// What the payment contract must be asked about this quote, computed by the driver itself:
/// quote hash = Keccak-256(content ++ timestamp secs (u64 LE) ++ msgpack(metrics) ++ rewards address ++ public key ++ signature)
/// (data_payments.rs `hash` / `bytes_for_signing`), the six metrics as 32-byte big-endian words in the ABI's order
/// (closeRecordsStored, maxRecords, receivedPaymentCount, liveTime, networkDensity, networkSize; absent = 0), the rewards address.
pub fn expected_triple(q: &PaymentQuote) -> (String, String, String) {
    let mut b: Vec<u8> = q.content.0.to_vec();
    let secs = q.timestamp.duration_since(SystemTime::UNIX_EPOCH).map(|d| d.as_secs()).unwrap_or(0);
    b.extend_from_slice(&secs.to_le_bytes());
    b.extend_from_slice(&rmp_serde::to_vec(&q.quoting_metrics).unwrap_or_default());
    b.extend_from_slice(q.rewards_address.as_slice());
    b.extend_from_slice(&q.pub_key);
    b.extend_from_slice(&q.signature);
    let m = &q.quoting_metrics;
    let w = |v: u128| format!("{:064x}", v);
    let metrics = [w(m.close_records_stored as u128), w(m.max_records as u128), w(m.received_payment_count as u128), w(m.live_time as u128),
                   hex::encode(m.network_density.unwrap_or([0u8; 32])), w(m.network_size.unwrap_or(0) as u128)].concat();
    (hex::encode(keccak256(&b)), metrics, hex::encode(q.rewards_address.as_slice()))
}

#[derive(Clone, Debug)]
pub struct PayX {
    pub base: Pay,
    /// the contract's behaviour: "ok" | "allBad" | "ownBadOnly" | "otherBadOnly" | "ownAmountZero" | a failure mode of the stub
    pub mode: String,
    /// which quote carries the failing condition (expired / forged / not close): "std" (expired = the first quote listed,
    /// forged = first other payee, far = last other payee) | "own" | "otherFirst" | "otherLast"
    pub pos: String,
    /// index of this node's quote among the quotes
    pub self_idx: usize,
    /// "std" (three payees) | "dupAuthFirst" | "dupForgedFirst" | "twoOwnGoodFirst" | "twoOwnBadFirst" | "n1" | "n2" | "n4" | "n5"
    pub shape: String,
    /// which payee plays the last other payee: "std" | "in19" (19th closest known peer: the farthest that is still among
    /// the K closest) | "out20" | "out21" (first / second known peer beyond the K closest)
    pub edge: String,
}
impl PayX {
    pub fn from_json(v: &Value) -> Self {
        let base = Pay::from_json(v);
        let s = |k: &str, d: &str| v[k].as_str().unwrap_or(d).to_string();
        let mode = s("mode", if base.chain { "ok" } else { "allBad" });
        PayX { base, mode, pos: s("pos", "std"), self_idx: v["selfIdx"].as_u64().unwrap_or(0) as usize, shape: s("shape", "std"), edge: s("edge", "std") }
    }
    pub fn is_plain(&self) -> bool {
        (self.mode == "ok" || self.mode == "allBad") && self.pos == "std" && self.self_idx == 0 && self.shape == "std" && self.edge == "std"
    }
}

/// The payees available to `proof_x`.
pub struct Payees<'a> {
    pub me: &'a Keypair,
    /// payees the node knows as close (at least five)
    pub near: &'a [Keypair],
    /// a payee that is not close (unknown to the node, or known but beyond its K closest)
    pub far: &'a Keypair,
    pub forger: &'a Keypair,
    /// known peers at the edge of the K closest: (19th closest, 20th, 21st)
    pub edge: (&'a Keypair, &'a Keypair, &'a Keypair),
}

/// Build a proof for `p`. Returns the proof and the index of this node's (first) quote, if it has one.
pub fn proof_x(k: &Payees, content: XorName, p: &PayX) -> (ProofOfPayment, Option<usize>) {
    #[derive(Clone)]
    struct Q { claimed: Keypair, signer: Keypair, key_of: Keypair, content: XorName, age: u64, own: bool }
    let other_addr = XorName::from_content(b"some other address");
    let b = p.base;
    let honest = |kp: &Keypair| Q { claimed: kp.clone(), signer: kp.clone(), key_of: kp.clone(), content, age: 5, own: false };
    let mine = |c: XorName, age: u64| Q { claimed: k.me.clone(), signer: k.me.clone(), key_of: k.me.clone(), content: c, age, own: true };
    let n_others = match p.shape.as_str() { "n1" => 0, "n2" => 1, "n4" => 3, "n5" => 4, "twoOwnGoodFirst" | "twoOwnBadFirst" => 1, _ => 2 };
    let mut others: Vec<Q> = k.near.iter().take(n_others).map(honest).collect();
    // the quote in this node's place: its own, or (when it is not a payee) that of one more close payee
    let own_q = if b.self_payee { mine(if b.addr { content } else { other_addr }, 5) } else { let mut q = honest(&k.near[4]); q.own = true; q };
    // ---- the failing conditions, at the prescribed position
    let first_last = |pos: &str, dflt_last: bool, n: usize| -> Option<usize> {
        if n == 0 { return None; }
        match pos { "otherFirst" => Some(0), "otherLast" => Some(n - 1), "std" => Some(if dflt_last { n - 1 } else { 0 }), _ => None }
    };
    let mut own_q = own_q;
    // the last other payee may be a peer at the edge of the K closest
    if let Some(i) = first_last("otherLast", true, others.len()) {
        match p.edge.as_str() { "in19" => others[i] = honest(k.edge.0), "out20" => others[i] = honest(k.edge.1), "out21" => others[i] = honest(k.edge.2), _ => {} }
    }
    if !b.close && p.edge == "std" {
        if let Some(i) = first_last(&p.pos, true, others.len()) { others[i] = honest(k.far); }
        else if !b.self_payee { let own = own_q.own; own_q = honest(k.far); own_q.own = own; }
    }
    if !b.sigs && !p.shape.starts_with("dup") {
        let forge = |q: &mut Q| { q.signer = k.forger.clone(); if b.forge_key { q.key_of = k.forger.clone(); } };
        match first_last(&p.pos, false, others.len()) { Some(i) if p.pos != "own" => forge(&mut others[i]), _ => forge(&mut own_q) }
    }
    if !b.fresh && !p.shape.starts_with("twoOwn") {
        match first_last(&p.pos, false, others.len()) { Some(i) if p.pos != "own" && p.pos != "std" => others[i].age = 3700, _ => own_q.age = 3700 }
    }
    // ---- shapes with a payee listed twice
    let mut quotes: Vec<Q> = vec![];
    match p.shape.as_str() {
        "dupAuthFirst" | "dupForgedFirst" => {
            // the same payee twice: one authentic quote and one forged under its name
            let auth = others[0].clone();
            let mut forged = auth.clone();
            forged.signer = k.forger.clone();
            if b.forge_key { forged.key_of = k.forger.clone(); }
            others = if p.shape == "dupAuthFirst" { vec![auth, forged] } else { vec![forged, auth] };
        }
        "twoOwnGoodFirst" | "twoOwnBadFirst" => {
            // two quotes of this node: a good one, and one for another address (addr = false) or expired (fresh = false)
            let bad = mine(if b.addr { content } else { other_addr }, if b.fresh { 5 } else { 3700 });
            let good = mine(content, 5);
            let pair = if p.shape == "twoOwnGoodFirst" { vec![good, bad] } else { vec![bad, good] };
            quotes.push(others[0].clone());
            let at = p.self_idx.min(1);
            for (j, q) in pair.into_iter().enumerate() { quotes.insert(at + j, q); }
        }
        _ => {}
    }
    if quotes.is_empty() {
        quotes = others;
        let at = p.self_idx.min(quotes.len());
        quotes.insert(at, own_q);
    }
    let self_at = quotes.iter().position(|q| q.own && b.self_payee);
    let pq: Vec<(EncodedPeerId, PaymentQuote)> = quotes.iter().enumerate().map(|(i, q)| {
        (EncodedPeerId::from(PeerId::from(q.claimed.public())),
         signed_quote_with(&q.signer, &q.key_of, q.content, q.age, metrics_for(i as u64 + 1), rewards_for(i as u64 + 1)))
    }).collect();
    (ProofOfPayment { peer_quotes: pq }, self_at)
}

// ------------------------------------------------------------------------------------------
// Records
// ------------------------------------------------------------------------------------------
pub fn chunk_of(id: u64) -> Chunk {
    let mut b = format!("chunk content {id} ").into_bytes();
    b.extend(std::iter::repeat((id % 251) as u8).take(64));
    Chunk::new(Bytes::from(b))
}

pub fn sha256(s: &str) -> [u8; 32] {
    use sha2::Digest;
    sha2::Sha256::digest(s.as_bytes()).into()
}

/// deterministic BLS keys: hash the tag into 32 bytes until a valid scalar is found
pub fn bls_key(tag: u64) -> SecretKey {
    let mut i = 0u64;
    loop {
        if let Ok(sk) = SecretKey::from_bytes(sha256(&format!("bls key {tag} {i}"))) {
            return sk;
        }
        i += 1;
    }
}

/// scratchpad of `owner` with counter `count`; signed by `signer` (another key = invalid signature);
/// `bump` increments the counter after signing (inflated counter, invalid signature)
pub fn scratchpad(owner: &SecretKey, signer: &SecretKey, count: u64, content: u64, bump: bool) -> Scratchpad {
    let mut pad = Scratchpad::new(owner.public_key(), 0);
    let data = Bytes::from(format!("pad content {content}"));
    let mut c = 0;
    while c < count {
        c = pad.update_and_sign(data.clone(), signer);
    }
    if bump {
        pad.increment();
    }
    pad
}

pub fn transaction(owner: &SecretKey, signer: &SecretKey, id: u64) -> Transaction {
    let mut content = [0u8; 32];
    content[..8].copy_from_slice(&id.to_be_bytes());
    Transaction::new(owner.public_key(), vec![], content, vec![], signer)
}

pub fn register_base(owner: &SecretKey, meta: u64) -> SignedRegister {
    let reg = Register::new(owner.public_key(), XorName::from_content(format!("reg meta {meta}").as_bytes()), Permissions::default());
    let sig = owner.sign(reg.bytes().expect("reg bytes"));
    SignedRegister::new(reg, sig, BTreeSet::new())
}
/// same owner and label (hence the same address) but owner-signed permissions that let anyone write
pub fn register_base_alt(owner: &SecretKey, meta: u64) -> SignedRegister {
    let reg = Register::new(owner.public_key(), XorName::from_content(format!("reg meta {meta}").as_bytes()), Permissions::new_anyone_can_write());
    let sig = owner.sign(reg.bytes().expect("reg bytes"));
    SignedRegister::new(reg, sig, BTreeSet::new())
}
pub fn register_op(base: &SignedRegister, signer: &SecretKey, id: u64) -> RegisterOp {
    let mut crdt = RegisterCrdt::new(*base.address());
    let (_h, addr, node) = crdt.write(format!("entry {id}").into_bytes(), &BTreeSet::new()).expect("write");
    RegisterOp::new(addr, node, signer)
}
/// register = base + the given ops, assembled without going through add_op's checks
pub fn register_with(base: &SignedRegister, ops: Vec<RegisterOp>) -> SignedRegister {
    let (reg, sig) = (base.base_register().clone(), base.owner_signature_clone());
    SignedRegister::new(reg, sig, ops.into_iter().collect())
}

pub trait SigClone {
    fn owner_signature_clone(&self) -> bls::Signature;
}
impl SigClone for SignedRegister {
    fn owner_signature_clone(&self) -> bls::Signature {
        // SignedRegister has no accessor for the owner signature: go through serde
        let v = rmp_serde::to_vec_named(self).expect("ser");
        #[derive(serde::Deserialize)]
        struct Mirror {
            #[allow(dead_code)]
            register: Register,
            signature: bls::Signature,
            #[allow(dead_code)]
            ops: BTreeSet<RegisterOp>,
        }
        let m: Mirror = rmp_serde::from_slice(&v).expect("mirror");
        m.signature
    }
}

pub fn record(key: RecordKey, value: Vec<u8>) -> Record {
    Record { key, value, publisher: None, expires: None }
}
pub fn ser<T: serde::Serialize>(v: &T, kind: RecordKind) -> Vec<u8> {
    try_serialize_record(v, kind).expect("serialise").to_vec()
}
pub fn other_key(tag: u64) -> RecordKey {
    NetworkAddress::from_chunk_address(ant_protocol::storage::ChunkAddress::new(XorName::from_content(format!("unrelated key {tag}").as_bytes()))).to_record_key()
}

/// Decode what the store holds under `key` into abstract attributes for the trace.
pub fn describe(rec: &Option<Record>) -> Value {
    let Some(r) = rec else { return json!({"kind": "none"}) };
    let Ok(h) = RecordHeader::from_record(r) else { return json!({"kind": "unparsable"}) };
    match h.kind {
        RecordKind::Chunk => match try_deserialize_record::<Chunk>(r) {
            Ok(c) => json!({"kind": "chunk", "derived": hex::encode(NetworkAddress::from_chunk_address(*c.address()).to_record_key().as_ref()), "bytes": c.value().len()}),
            Err(_) => json!({"kind": "unparsable"}),
        },
        RecordKind::Scratchpad => match try_deserialize_record::<Scratchpad>(r) {
            Ok(p) => json!({"kind": "pad", "count": p.count(), "valid": p.is_valid(), "owner": hex::encode(p.owner().to_bytes()),
                            "derived": hex::encode(NetworkAddress::ScratchpadAddress(*p.address()).to_record_key().as_ref()),
                            "content": hex::encode(p.encrypted_data_hash().0)}),
            Err(_) => json!({"kind": "unparsable"}),
        },
        RecordKind::Transaction => match try_deserialize_record::<Vec<Transaction>>(r) {
            Ok(t) => json!({"kind": "txs", "txs": t.iter().map(|x| json!({"id": u64::from_be_bytes(x.content[..8].try_into().unwrap_or([0;8])), "valid": x.verify(), "owner": hex::encode(x.owner.to_bytes()),
                            "derived": hex::encode(NetworkAddress::from_transaction_address(x.address()).to_record_key().as_ref())})).collect::<Vec<_>>()}),
            Err(_) => json!({"kind": "unparsable"}),
        },
        RecordKind::Register => match try_deserialize_record::<SignedRegister>(r) {
            Ok(g) => json!({"kind": "reg", "verify": g.verify().is_ok(), "nops": g.ops().len(),
                            "derived": hex::encode(NetworkAddress::from_register_address(*g.address()).to_record_key().as_ref()),
                            "ops": g.ops().iter().map(|o| hex::encode(rmp_serde::to_vec(o).unwrap_or_default())).collect::<Vec<_>>()}),
            Err(_) => json!({"kind": "unparsable"}),
        },
        other => json!({"kind": format!("with-payment:{other:?}")}),
    }
}
