SPECIFICATION Spec
CONSTANTS
  NP = 6
  NK = 2
  NCaller = 3
  MaxQ = 3
  CGS = 5
  Depth = 14
  MaxReplies = 10
  MaxReplies2 = 10
  MaxDup = 3
  MaxForeign = 2
  MaxLate = 2
  QuorumSet = {"One", "N2", "Maj", "All"}
  Triples = {{1, 2, 13}, {1, 2, 3}, {13, 14, 15}, {13, 16, 17}, {4, 5, 9}, {13, 14, 1}, {4, 6, 19}, {4, 5, 19}, {4, 20, 19}, {13, 14, 22}, {15, 22, 23}}
  SplitSizes = {2}
  AllCfgs = TRUE
  IsRegSet = {FALSE, TRUE}
  EhSet = {0, 1, 2}
  MaxCancel = 2
  MaxRepliesC = 10
  Record = TRUE
  KnownMask = {"C05-merge-bypasses-target", "C05-mixed-kinds-first-record-dictates", "C05-equal-counter-scratchpad-first-wins"}
INVARIANTS NoClauseFalsified Emit
CONSTRAINT Bounded
CHECK_DEADLOCK FALSE
