---------------------------- MODULE MCGetRecord ----------------------------
(***************************************************************************)
(* Model-checking harness for GetRecord: callers ask (the second one at    *)
(* any point, for the same or another key, with the same or another cfg,   *)
(* also one differing only in is_register), a waiting caller may give up   *)
(* (Cancel: every other caller is still owed its outcome),                 *)
(* peers reply in every order, repeatedly, with any of three content       *)
(* versions, under the requested or a foreign key; every query ends by one *)
(* of the four terminating events (or by reaching its quorum); late events *)
(* for a finished query are delivered too.  From the initial state the     *)
(* client-side merge is evaluated for every small set of versions under    *)
(* every iteration order of the result map.                                *)
(* `bad` = clauses falsified by the last step beyond the listed known      *)
(* findings; the invariant is bad = {}.  In simulation mode `hist` records *)
(* the behaviour for replay into the real SwarmDriver.                     *)
(***************************************************************************)
EXTENDS GetRecord, TLC, Json, IOUtils

CONSTANTS Depth,        \* simulation: number of steps of a recorded behaviour
          MaxReplies,   \* bound on the number of FoundRecord events while there is one caller
          MaxReplies2,  \* ... once there is a second caller
          MaxDup,       \* ... of those repeating an earlier reply (same peer, content, key) of the query
          MaxForeign,   \* ... of those carrying a record for another key
          MaxLate,      \* events delivered for a query that is already gone
          QuorumSet,    \* quorum settings callers use
          Triples,      \* the alternatives for the three content versions in play
          SplitSizes,   \* sizes of the version sets of the client-side cases
          AllCfgs,      \* later callers use any cfg (else: the first caller's, or one differing in one respect)
          IsRegSet,     \* is_register settings of the first caller (and of later ones when AllCfgs)
          EhSet,        \* expected-holder settings of the first caller (and of later ones when AllCfgs)
          MaxCancel,    \* callers that give up (drop their receiving end) while waiting
          MaxRepliesC,  \* bound on the number of FoundRecord events of a behaviour in which a caller gives up
          Record,       \* TRUE: keep the history (simulation); FALSE: exhaustive checking
          KnownMask     \* ids of the known findings that are listed

VARIABLES st, g, uni, cnt, bad, hist, n
vars == <<st, g, uni, cnt, bad, hist, n>>

FalsifiedBy(x) == {v.clause : v \in {y \in Verdicts(x) : y.kf \notin KnownMask}}

\* Scenario classes that an environment variable set to "0" switches off (on by default since the repairs e7b3363 / 72698cf in /repo):
\*   VERIF_ENABLE_C05_CANCEL   simulated behaviours (replayed on the real code) contain Cancel steps
\*   VERIF_ENABLE_C05_FOREIGN  client-side split cases contain a register of another base / a foreign owner's scratchpad
EnvOn(name) == ~(name \in DOMAIN IOEnv /\ IOEnv[name] = "0")
CancelOn == EnvOn("VERIF_ENABLE_C05_CANCEL")
ForeignOn == EnvOn("VERIF_ENABLE_C05_FOREIGN")

Base(ev) == [ev |-> ev, s |-> st, g |-> g, g2 |-> 0, caller |-> 0, key |-> 0, quorum |-> "One", target |-> 0,
             isreg |-> FALSE, eh |-> 0, txnbytes |-> FALSE,
             q |-> 0, p |-> 0, c |-> 0, k |-> 0, dl |-> {}, pq |-> {}, att |-> 0, res |-> "",
             vs |-> {}, runs |-> <<>>, ans |-> <<>>, natt |-> 0, o |-> 0, used |-> 0]

Json1(x) == [ev |-> x.ev, caller |-> x.caller, key |-> x.key, quorum |-> x.quorum, target |-> x.target,
             isreg |-> x.isreg, eh |-> x.eh,
             q |-> x.q, p |-> x.p, c |-> x.c, k |-> x.k, att |-> x.att, dl |-> x.dl, pq |-> x.pq]

Init == /\ st = Init0 /\ g = Ghost0 /\ uni \in Triples /\ cnt = [found |-> 0, dup |-> 0, foreign |-> 0, late |-> 0]
        /\ bad = {} /\ hist = <<>> /\ n = 0

Step(x0, cnt2) ==
    /\ n < Depth
    /\ \E r \in ModelResults(x0) :
       LET x1 == [x0 EXCEPT !.dl = r.dl, !.pq = Live(r.st), !.att = r.att, !.res = r.res]
           g2 == GhostNext(g, x1)
           x == [x1 EXCEPT !.g2 = g2] IN
       /\ st' = r.st
       \* (the replies of a query that is gone can no longer matter: forget them, so that histories merge)
       /\ g' = [g2 EXCEPT !.replies = [q \in Query |-> IF IsLive(r.st, q) THEN g2.replies[q] ELSE {}]]
       /\ cnt' = cnt2
       /\ bad' = FalsifiedBy(x)
       /\ n' = IF Record THEN n + 1 ELSE n          \* exhaustive runs are bounded by the counters alone
       /\ hist' = IF Record THEN Append(hist, Json1(x)) ELSE hist
       /\ UNCHANGED uni

\* callers arrive in the order 1, 2, ...; the first asks for key 1.  A later caller asks like the first
\* one, or differs from it in exactly one respect: the quorum, the expected value, or the key
\* (AllCfgs = TRUE: any key, quorum and expected value).
Cfg1 == g.cfg[1]
OtherQuorums == IF AllCfgs THEN QuorumSet \ {Cfg1.quorum}
                ELSE {IF Cfg1.quorum = "One" THEN "All" ELSE "One"} \cup (IF Cfg1.quorum = "N2" THEN {"Maj"} ELSE {"N2"})
LaterCfgs == IF AllCfgs THEN {[key |-> k, quorum |-> qm, target |-> tg, isreg |-> ir, eh |-> eh] :
                                  k \in Key, qm \in QuorumSet, tg \in {0} \cup uni, ir \in IsRegSet, eh \in EhSet}
             ELSE {Cfg1} \cup {[Cfg1 EXCEPT !.quorum = qm] : qm \in OtherQuorums}
                  \cup {[Cfg1 EXCEPT !.isreg = ~@]}
                  \* (the expected holders do not occur in the model at all: varied in simulation and by the driver)
                  \cup {[Cfg1 EXCEPT !.target = IF Cfg1.target = 0 THEN CHOOSE c \in uni : \A d \in uni : c <= d ELSE 0]}
                  \cup {[Cfg1 EXCEPT !.key = k] : k \in Key \ {Cfg1.key}}
DoCall == LET cl == Cardinality(g.called) + 1 IN
          /\ cl \in Caller
          /\ (cl > 1 => cnt.found <= MaxReplies2)      \* behaviours with several callers live within the smaller budget
          /\ \E cf \in (IF cl = 1 THEN {[key |-> 1, quorum |-> qm, target |-> tg, isreg |-> ir, eh |-> eh] :
                                            qm \in QuorumSet, tg \in {0} \cup uni, ir \in IsRegSet, eh \in EhSet}
                                   ELSE LaterCfgs) :
                Step([Base("Call") EXCEPT !.caller = cl, !.key = cf.key, !.quorum = cf.quorum, !.target = cf.target,
                                          !.isreg = cf.isreg, !.eh = cf.eh], cnt)

\* a waiting caller gives up.  (Exhaustive checking always explores it; recorded behaviours, which are
\* replayed on the real code, contain it only when the scenario class is switched on.)
DoCancel == /\ (~Record \/ CancelOn)
            /\ Cardinality(g.cancelled) < MaxCancel
            /\ cnt.found <= MaxRepliesC
            \* (repeated / foreign-key / late events are explored in the behaviours without a cancellation)
            /\ (~Record => cnt.dup = 0 /\ cnt.foreign = 0 /\ cnt.late = 0)
            /\ \E cl \in g.called \ (g.got \cup g.cancelled) : Step([Base("Cancel") EXCEPT !.caller = cl], cnt)

\* peers are interchangeable: a peer that has not answered yet is the lowest unused id
UsedPeers == UNION {{r.p : r \in g.replies[q]} : q \in Query}
NextPeers == UsedPeers \cup (IF \E p \in Peer : p \notin UsedPeers
                                        THEN {CHOOSE p \in Peer : p \notin UsedPeers /\ \A o \in Peer \ UsedPeers : p <= o}
                                        ELSE {})
LateOk(q) == IsLive(st, q) \/ cnt.late < MaxLate
LateInc(q) == IF IsLive(st, q) THEN 0 ELSE 1
DoFound == /\ cnt.found < (IF Cardinality(g.called) > 1 THEN MaxReplies2 ELSE MaxReplies)
           /\ (g.cancelled # {} => cnt.found < MaxRepliesC)
           /\ \E q \in 1..Len(st.qs), p \in NextPeers, c \in uni, k \in Key :
                LET fk == IF k = st.qs[q].key THEN 0 ELSE 1
                    dp == IF [p |-> p, c |-> c, k |-> k] \in g.replies[q] THEN 1 ELSE 0 IN
                /\ LateOk(q)
                /\ (~Record /\ g.cancelled # {} => fk = 0 /\ dp = 0 /\ IsLive(st, q))
                /\ cnt.foreign + fk <= MaxForeign
                /\ cnt.dup + dp <= MaxDup
                /\ Step([Base("Found") EXCEPT !.q = q, !.p = p, !.c = c, !.k = k],
                        [found |-> cnt.found + 1, dup |-> cnt.dup + dp, foreign |-> cnt.foreign + fk,
                         late |-> cnt.late + LateInc(q)])
Term(ev) == \E q \in 1..Len(st.qs) :
                /\ LateOk(q)
                /\ (~Record /\ g.cancelled # {} => IsLive(st, q))
                /\ Step([Base(ev) EXCEPT !.q = q], [cnt EXCEPT !.late = @ + LateInc(q)])
DoFinished == Term("Finished")
DoNotFound == Term("NotFound")
DoQuorumFailed == Term("QuorumFailed")
DoTimeout == Term("Timeout")

\* ---- client side: every version set of the listed sizes, every iteration order of the result map
SplitUniverse == IF ForeignOn THEN CId ELSE CId \ Foreign
SplitSets == {S \in SUBSET SplitUniverse : Cardinality(S) \in SplitSizes}
SplitTargets(S) == IF Cardinality(S) = 2 THEN {0} \cup S ELSE {0}
SplitStep(S, tg) == LET perms == SetToSeq(SetToSeqs(S)) IN
                    [Base("SplitCase") EXCEPT !.key = 1, !.target = tg, !.vs = S,
                         !.runs = [i \in 1..Len(perms) |-> [it |-> perms[i], o |-> ClientSplit(perms[i], 1)]]]
DoSplit == /\ ~Record /\ n = 0 /\ g.called = {}
           /\ \E S \in SplitSets : \E tg \in SplitTargets(S) : bad' = FalsifiedBy(SplitStep(S, tg))
           /\ n' = Depth
           /\ UNCHANGED <<st, g, uni, cnt, hist>>

A(a, c, it, e) == [a |-> a, c |-> c, it |-> it, e |-> e]
Answers == {A("Ok", 1, <<>>, ""), A("Ok", 6, <<>>, ""), A("Split", 0, <<1, 2>>, ""), A("Split", 0, <<5, 4>>, ""),
            A("Split", 0, <<13, 16>>, ""), A("Split", 0, <<11, 8, 10>>, ""), A("Split", 0, <<14, 13>>, ""),
            A("Err", 0, <<>>, "QueryTimeout"), A("Err", 0, <<>>, "RecordNotFound"),
            A("Err", 0, <<>>, "NotEnoughCopies"), A("Err", 0, <<>>, "RecordDoesNotMatch")}
\* one scripted answer per allowed attempt (natt = 1: RetryStrategy::None, natt = 2: one retry)
RetryCases == {[ans |-> a, natt |-> Len(a)] : a \in UNION {[1..len -> Answers] : len \in 1..2}}
RetryStep(rc) == LET r == ClientGet(rc.ans, rc.natt, 1, 1) IN
                 [Base("ClientRetry") EXCEPT !.key = 1, !.ans = rc.ans, !.natt = rc.natt, !.o = r.o, !.used = r.used]
DoClientRetry == /\ ~Record /\ n = 0 /\ g.called = {}
                 /\ \E rc \in RetryCases : bad' = FalsifiedBy(RetryStep(rc))
                 /\ n' = Depth
                 /\ UNCHANGED <<st, g, uni, cnt, hist>>

\* simulation: a behaviour whose queries have all ended is complete
DoEnd == /\ Record /\ n < Depth /\ n > 0 /\ Live(st) = {} /\ Cardinality(g.called) = NCaller
         /\ n' = Depth
         /\ UNCHANGED <<st, g, uni, cnt, bad, hist>>

Next == DoCall \/ DoCancel \/ DoFound \/ DoFinished \/ DoNotFound \/ DoQuorumFailed \/ DoTimeout \/ DoSplit \/ DoClientRetry
        \/ DoEnd
Spec == Init /\ [][Next]_vars

NoClauseFalsified == bad = {}
Bounded == n <= Depth
Emit == (Record /\ n = Depth) => PrintT(<<"SCN", ToJson(hist)>>)

\* ---- case list of the client-side part for the driver (written once, when TLC evaluates the assumption)
SplitCases == UNION {{[kind |-> "split", vs |-> SetToSeq(S), target |-> tg] : tg \in SplitTargets(S)} : S \in SplitSets}
ASSUME IF "CASES" \in DOMAIN IOEnv
       THEN ndJsonSerialize(IOEnv.CASES, SetToSeq(SplitCases)
                \o SetToSeq({[kind |-> "retry", ans |-> rc.ans, natt |-> rc.natt] : rc \in RetryCases}))
       ELSE TRUE
=============================================================================
