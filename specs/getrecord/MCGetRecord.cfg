SPECIFICATION Spec
CONSTANTS
  NP = 6
  NK = 2
  NCaller = 2
  MaxQ = 2
  CGS = 5
  Depth = 9
  MaxReplies = 5
  MaxReplies2 = 3
  MaxDup = 1
  MaxForeign = 1
  MaxLate = 1
  QuorumSet = {"One", "N2", "Maj", "All"}
  Triples = {{1, 2, 13}}
  SplitSizes = {2, 3}
  AllCfgs = FALSE
  IsRegSet = {FALSE}
  EhSet = {0}
  MaxCancel = 1
  MaxRepliesC = 2
  Record = FALSE
  KnownMask = {"C05-merge-bypasses-target", "C05-mixed-kinds-first-record-dictates", "C05-equal-counter-scratchpad-first-wins"}
INVARIANTS NoClauseFalsified
CONSTRAINT Bounded
CHECK_DEADLOCK FALSE
