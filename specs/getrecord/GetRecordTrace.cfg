SPECIFICATION Spec
CONSTANTS
  NP = 8
  NK = 3
  NCaller = 4
  MaxQ = 8
  CGS = 5
  KnownMask = {"C05-merge-bypasses-target", "C05-mixed-kinds-first-record-dictates", "C05-equal-counter-scratchpad-first-wins"}
INVARIANT Report
CHECK_DEADLOCK FALSE
