--------------------------- MODULE GetRecordTrace ---------------------------
(***************************************************************************)
(* Trace specification for C05.  Each line is one step on the REAL code:   *)
(*   Call / Cancel / Found / Finished / NotFound / QuorumFailed / Timeout  *)
(*       a GetNetworkRecord command, a caller dropping its receiver, or a  *)
(*       synthetic kad event handled by the real SwarmDriver,              *)
(*       with what every (remaining) caller's channel delivered            *)
(*       in that step (dl), the query the caller was attached to (att) and *)
(*       the queries still pending afterwards (pq);                        *)
(*   SplitCase   Network::get_record_from_network answered with a split of *)
(*       the versions vs, once per presented iteration order of the map;   *)
(*   ClientRetry get_record_from_network with retries, answers scripted.   *)
(*                                                                         *)
(* Verdict: the clause operators of GetRecord.tla evaluated on the         *)
(* OBSERVED step plus the ghost history kept here (who asked what, which   *)
(* peer returned what under which key).  Witnesses matched by a listed     *)
(* known finding go to `known`.  Drift: the model, run alongside from the  *)
(* same Reset, predicts different observables for the step.                *)
(***************************************************************************)
EXTENDS GetRecord, TLC, Json, IOUtils

Rec == ndJsonDeserialize(IOEnv.TRACE)
N == Len(Rec)

CONSTANT KnownMask

VARIABLES l, g, m, viol, known, drift, stats
vars == <<l, g, m, viol, known, drift, stats>>

OutOf(j) == [kind |-> j.kind, e |-> j.e, cid |-> j.cid, k |-> j.k, vk |-> j.vk, vs |-> ToSet(j.vs),
             vb |-> j.vb, vm |-> j.vm, h |-> j.h]
DlOf(seq) == {[caller |-> seq[i].caller, o |-> OutOf(seq[i].o)] : i \in 1..Len(seq)}
RunsOf(seq) == [i \in 1..Len(seq) |-> [it |-> seq[i].it, o |-> OutOf(seq[i].o)]]

Known == {"Reset", "Skipped"} \cup KadEv \cup {"SplitCase", "ClientRetry"}
InUniverse(S) == \A c \in S : c \in CId
WellFormed(e) ==
    IF e.ev \in {"Reset", "Skipped"} THEN TRUE
    ELSE IF e.ev = "Cancel" THEN e.caller \in Caller /\ Len(e.dl) = 0
    ELSE IF e.ev = "Call" THEN e.caller \in Caller /\ e.key \in Key /\ e.quorum \in Quorums /\ e.target \in CId \cup {0}
                               /\ e.isreg \in BOOLEAN /\ e.eh \in 0..2
                               /\ e.att \in Query \cup {0} /\ \A i \in 1..Len(e.dl) : e.dl[i].caller \in Caller
    ELSE IF e.ev \in KadEv THEN /\ e.q \in Query /\ \A i \in 1..Len(e.dl) : e.dl[i].caller \in Caller
                                /\ (e.ev = "Found" => e.p \in Peer /\ e.c \in CId /\ e.k \in Key)
    ELSE IF e.ev = "SplitCase" THEN InUniverse(ToSet(e.vs)) /\ e.target \in CId \cup {0} /\ Len(e.runs) >= 1 /\ e.txnbytes \in BOOLEAN
                                    /\ \A i \in 1..Len(e.runs) : ToSet(e.runs[i].it) = ToSet(e.vs)
    ELSE e.ev = "ClientRetry" /\ e.natt >= 1 /\ Len(e.ans) >= 1
         /\ \A i \in 1..Len(e.ans) : e.ans[i].a \in {"Ok", "Split", "Err"}

Blank == [ev |-> "", s |-> 0, g |-> 0, g2 |-> 0, caller |-> 0, key |-> 0, quorum |-> "One", target |-> 0,
          isreg |-> FALSE, eh |-> 0, txnbytes |-> FALSE,
          q |-> 0, p |-> 0, c |-> 0, k |-> 0, dl |-> {}, pq |-> {}, att |-> 0, res |-> "",
          vs |-> {}, runs |-> <<>>, ans |-> <<>>, natt |-> 0, o |-> 0, used |-> 0]
StepOf(e) ==
    IF e.ev \in KadEv
    THEN [Blank EXCEPT !.ev = e.ev, !.g = g, !.caller = e.caller, !.key = e.key, !.quorum = e.quorum, !.target = e.target,
                       !.q = e.q, !.p = e.p, !.c = e.c, !.k = e.k, !.dl = DlOf(e.dl), !.pq = ToSet(e.pq),
                       !.att = e.att, !.res = e.res,
                       !.isreg = (e.ev = "Call" /\ e.isreg), !.eh = (IF e.ev = "Call" THEN e.eh ELSE 0)]
    ELSE IF e.ev = "SplitCase"
    THEN [Blank EXCEPT !.ev = e.ev, !.g = g, !.key = e.key, !.target = e.target, !.vs = ToSet(e.vs), !.runs = RunsOf(e.runs),
                       !.txnbytes = e.txnbytes]
    ELSE [Blank EXCEPT !.ev = e.ev, !.g = g, !.key = e.key, !.ans = e.ans, !.natt = e.natt, !.o = OutOf(e.o), !.used = e.used]

\* ---- the model run alongside (drift)
SameDl(mdl, odl) == /\ {d.caller : d \in mdl} = {d.caller : d \in odl}
                    /\ \A a \in mdl, b \in odl : a.caller = b.caller => SameOutcome(a.o, b.o)
Conforming(x, ms) ==
    IF x.ev \in KadEv
    THEN {r \in ModelResults([x EXCEPT !.s = ms]) :
              SameDl(r.dl, x.dl) /\ Live(r.st) = x.pq /\ (x.ev = "Call" => r.att = x.att) /\ r.res = x.res}
    ELSE {}
ClientConforms(x) ==
    IF x.ev = "SplitCase" THEN \A i \in 1..Len(x.runs) : SameOutcome(ClientSplit(x.runs[i].it, x.key), x.runs[i].o)
    ELSE LET r == ClientGet(x.ans, x.natt, x.key, 1) IN SameOutcome(r.o, x.o) /\ r.used = x.used

Stats0 == [steps |-> 0, calls |-> 0, replies |-> 0, terms |-> 0, delivered |-> 0, ok |-> 0, okmerged |-> 0, split |-> 0,
           err |-> 0, joined |-> 0, cancels |-> 0, owedaftercancel |-> 0, isregcalls |-> 0, ehcalls |-> 0, foreigncases |-> 0,
           splitcases |-> 0, splitruns |-> 0, orders |-> 0, merged |-> 0, retries |-> 0, skipped |-> 0]
Count(S) == Cardinality(S)
StatsNext(x) ==
    IF x.ev \in KadEv THEN
      [stats EXCEPT !.steps = @ + 1,
                    !.calls = @ + (IF x.ev = "Call" THEN 1 ELSE 0),
                    !.replies = @ + (IF x.ev = "Found" THEN 1 ELSE 0),
                    !.terms = @ + (IF x.ev \in TermEv THEN 1 ELSE 0),
                    !.joined = @ + (IF x.ev = "Call" /\ x.att \in {x.g.qOf[c] : c \in x.g.called} THEN 1 ELSE 0),
                    !.cancels = @ + (IF x.ev = "Cancel" THEN 1 ELSE 0),
                    !.isregcalls = @ + (IF x.ev = "Call" /\ x.isreg THEN 1 ELSE 0),
                    !.ehcalls = @ + (IF x.ev = "Call" /\ x.eh # 0 THEN 1 ELSE 0),
                    \* outcomes delivered to a caller whose query was shared with a caller that had given up
                    !.owedaftercancel = @ + Count({d \in x.dl : \E c \in x.g2.cancelled : x.g2.qOf[c] = x.g2.qOf[d.caller]}),
                    !.delivered = @ + Count(x.dl),
                    !.ok = @ + Count({d \in x.dl : d.o.kind = "Ok"}),
                    !.okmerged = @ + Count({d \in x.dl : d.o.kind = "Ok" /\ Cardinality(Versions(x.g2, x.g2.qOf[d.caller], x.g2.cfg[d.caller].key)) >= 2}),
                    !.split = @ + Count({d \in x.dl : d.o.kind = "Split"}),
                    !.err = @ + Count({d \in x.dl : d.o.kind = "Err"})]
    ELSE IF x.ev = "SplitCase" THEN
      [stats EXCEPT !.steps = @ + 1, !.splitcases = @ + 1, !.splitruns = @ + Len(x.runs),
                    !.foreigncases = @ + (IF x.vs \cap Foreign # {} THEN 1 ELSE 0),
                    !.orders = @ + Count({x.runs[i].it : i \in 1..Len(x.runs)}),
                    !.merged = @ + Count({i \in 1..Len(x.runs) : x.runs[i].o.kind = "Ok"})]
    ELSE [stats EXCEPT !.steps = @ + 1, !.retries = @ + 1]

Init == /\ l = 1 /\ g = Ghost0 /\ m = [ok |-> TRUE, st |-> Init0]
        /\ viol = {} /\ known = {} /\ drift = {} /\ stats = Stats0
Next ==
    /\ l <= N
    /\ l' = l + 1
    /\ LET e == Rec[l] IN
       IF e.ev \notin Known \/ ~WellFormed(e) THEN
            /\ viol' = viol \cup {[clause |-> "Malformed", line |-> l, w |-> 0]}
            /\ UNCHANGED <<g, m, known, drift, stats>>
       ELSE IF e.ev = "Reset" THEN
            /\ g' = Ghost0 /\ m' = [ok |-> TRUE, st |-> Init0]
            /\ UNCHANGED <<viol, known, drift, stats>>
       ELSE IF e.ev = "Skipped" THEN
            \* the behaviour prescribed an event for a query the real driver does not have: drift, no step
            /\ drift' = drift \cup {l} /\ m' = [ok |-> FALSE, st |-> m.st]
            /\ stats' = [stats EXCEPT !.skipped = @ + 1]
            /\ UNCHANGED <<g, viol, known>>
       ELSE LET x1 == StepOf(e)
                g2 == IF e.ev \in KadEv THEN GhostNext(g, x1) ELSE g
                x == [x1 EXCEPT !.g2 = g2]
                vs == Verdicts(x)
                mr == IF m.ok THEN Conforming(x, m.st) ELSE {}
                conf == IF e.ev \in KadEv THEN (~m.ok \/ mr # {}) ELSE ClientConforms(x)
            IN /\ g' = g2
               /\ viol' = viol \cup {[clause |-> y.clause, line |-> l, w |-> y.w] : y \in {z \in vs : z.kf \notin KnownMask}}
               /\ known' = known \cup {[kf |-> y.kf, clause |-> y.clause, line |-> l, w |-> y.w] : y \in {z \in vs : z.kf \in KnownMask}}
               /\ m' = IF e.ev \notin KadEv THEN m
                       ELSE IF mr # {} THEN [ok |-> TRUE, st |-> (CHOOSE r \in mr : TRUE).st]
                       ELSE [ok |-> FALSE, st |-> m.st]
               /\ drift' = IF conf THEN drift ELSE drift \cup {l}
               /\ stats' = StatsNext(x)
Spec == Init /\ [][Next]_vars

Report == l = N + 1 =>
          ndJsonSerialize(IOEnv.OUT, << [lines |-> N, violations |-> SetToSeq(viol), known |-> SetToSeq(known),
                                         drift |-> SetToSeq(drift), stats |-> stats] >>)
=============================================================================
