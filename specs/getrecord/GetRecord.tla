----------------------------- MODULE GetRecord -----------------------------
(***************************************************************************)
(* Quorum reads of a record from the network (property C05).               *)
(*                                                                         *)
(* Implementation-shaped model of                                          *)
(*   ant-networking/src/cmd.rs        GetNetworkRecord (de-duplication)    *)
(*   ant-networking/src/event/kad.rs  accumulate_get_record_found,         *)
(*                                    handle_get_record_finished,          *)
(*                                    handle_get_record_error              *)
(*   ant-networking/src/lib.rs        get_record_from_network,             *)
(*                                    handle_split_record_error            *)
(* The state is ONE record; every operation is an operator returning the   *)
(* SET of possible results [st, dl, att, res] (dl = outcomes delivered in  *)
(* this step, att = query a caller was attached to).                       *)
(*                                                                         *)
(* The clause operators (witness sets W_...) at the end are written       *)
(* from the statement of C05; they read only the event, the ghost history  *)
(* (who asked what, which peer replied what under which key) and the       *)
(* OBSERVED deliveries, so that they are evaluated unchanged on the model  *)
(* (MCGetRecord) and on steps recorded from the real code (GetRecordTrace).*)
(***************************************************************************)
EXTENDS Naturals, FiniteSets, Sequences, SequencesExt

CONSTANTS NP,        \* peers 1..NP (the driver sends peer NP as PeerRecord.peer = None, i.e. "self")
          NK,        \* record keys 1..NK
          NCaller,   \* callers 1..NCaller
          MaxQ,      \* queries 1..MaxQ, numbered in the order they are started
          CGS        \* CLOSE_GROUP_SIZE (5 in the code)

Peer == 1..NP
Key == 1..NK
Caller == 1..NCaller
Query == 1..MaxQ

(***************************************************************************)
(* Content universe.  The driver builds one REAL record per id (chunks,    *)
(* BLS-signed registers and operations, signed scratchpads, transactions). *)
(*   kind   header kind of the record ("junk": no parsable header)         *)
(*   ok     reg: SignedRegister::verify passes; pad: is_valid();           *)
(*          txn: the body decodes as Vec<Transaction>                      *)
(*   s      what the value consists of: chunk/pad: its own id; reg: ids of *)
(*          its operations; txn: ids of its transactions                   *)
(*   cnt    scratchpad counter                                             *)
(*   b      reg: which base register (owner, name, permissions) it is a    *)
(*          version of; pad: whose scratchpad it is.  1 = the register /   *)
(*          scratchpad ADDRESSED BY THE REQUESTED KEY, 2 = another one (a  *)
(*          valid record, but of a foreign address); 0 for other kinds.    *)
(***************************************************************************)
Ct(kind, ok, s, cnt, b) == [kind |-> kind, ok |-> ok, s |-> s, cnt |-> cnt, b |-> b]
Content == <<
    Ct("chunk", TRUE, {1}, 0, 0),     \*  1  C1
    Ct("chunk", TRUE, {2}, 0, 0),     \*  2  C2
    Ct("chunk", TRUE, {3}, 0, 0),     \*  3  C3
    Ct("reg",   TRUE, {1}, 0, 1),     \*  4  R1  ops {1}
    Ct("reg",   TRUE, {2}, 0, 1),     \*  5  R2  ops {2}
    Ct("reg",   TRUE, {1, 3}, 0, 1),  \*  6  R3  ops {1,3}
    Ct("reg",   FALSE, {4}, 0, 1),    \*  7  R4  ops {4}, base register not signed by its owner
    Ct("pad",   TRUE, {8}, 1, 1),     \*  8  P1  counter 1
    Ct("pad",   TRUE, {9}, 2, 1),     \*  9  P2  counter 2
    Ct("pad",   TRUE, {10}, 3, 1),    \* 10  P3  counter 3
    Ct("pad",   TRUE, {11}, 3, 1),    \* 11  P4  counter 3, other payload
    Ct("pad",   FALSE, {12}, 4, 1),   \* 12  P5  counter 4, signed with a foreign key
    Ct("txn",   TRUE, {1}, 0, 0),     \* 13  T1  [t1]
    Ct("txn",   TRUE, {2}, 0, 0),     \* 14  T2  [t2]
    Ct("txn",   TRUE, {1, 2}, 0, 0),  \* 15  T3  [t1,t2]
    Ct("txn",   TRUE, {1}, 0, 0),     \* 16  T4  [t1,t1]  (other bytes, same set)
    Ct("txn",   FALSE, {}, 0, 0),     \* 17  T5  transaction header, undecodable body
    Ct("junk",  FALSE, {}, 0, 0),     \* 18  J1  no record header
    Ct("reg",   TRUE, {1}, 0, 1),     \* 19  R1' the register R1 (same base, same ops) serialised to other bytes
    Ct("reg",   TRUE, {5}, 0, 2),     \* 20  R6  ops {5}: a valid register with ANOTHER base (other owner, name, permissions)
    Ct("pad",   TRUE, {21}, 5, 2),    \* 21  P6  counter 5: a validly signed scratchpad of a FOREIGN owner
    Ct("txn",   TRUE, {3}, 0, 0),     \* 22  T6  [t3]     (a third transaction: unions of more than two -- seeded/C05-9)
    Ct("txn",   TRUE, {2, 3}, 0, 0) >> \* 23  T7  [t2,t3]
CId == 1..Len(Content)
Foreign == {c \in CId : Content[c].b = 2}
\* the items of a value as a multiset (sorted sequence); only T4 lists an item twice
SortedSeq(S) == SetToSortSeq(S, LAMBDA a, b : a < b)
CM(c) == IF c = 16 THEN <<1, 1>> ELSE SortedSeq(Content[c].s)
Mergeable == {"reg", "pad", "txn"}

Quorums == {"One", "N2", "N4", "Maj", "All"}
\* written from the statement / the documented meaning of the quorum settings
QV(qm) == CASE qm = "One" -> 1
            [] qm = "N2"  -> 2
            [] qm = "N4"  -> 4
            [] qm = "Maj" -> (CGS \div 2) + 1
            [] qm = "All" -> CGS

(***************************************************************************)
(* Outcomes as a caller sees them (uniform record shape).                  *)
(*   kind "Ok"     cid = id of the universe content the returned bytes are *)
(*                 identical to (0: none), k = key field of the returned   *)
(*                 record, vk/vs = the returned value decoded, vb = the    *)
(*                 base / owner of a returned register / scratchpad, vm =  *)
(*                 its items as a multiset (sorted sequence WITH repeats), *)
(*                 h = hash of the returned bytes ("" in the model)        *)
(*   kind "Split"  vs = ids of the versions carried, k = their common key  *)
(*                 field (0 if they differ)                                *)
(*   kind "Err"    e = error variant                                       *)
(*   kind "Dropped" the channel was closed without an outcome              *)
(***************************************************************************)
OkC(c, k) == [kind |-> "Ok", e |-> "", cid |-> c, k |-> k, vk |-> Content[c].kind, vs |-> Content[c].s,
              vb |-> Content[c].b, vm |-> CM(c), h |-> ""]
OkM(vk, vs, k, b) == [kind |-> "Ok", e |-> "", cid |-> 0, k |-> k, vk |-> vk, vs |-> vs, vb |-> b, vm |-> SortedSeq(vs), h |-> ""]
SplitO(S, k) == [kind |-> "Split", e |-> "", cid |-> 0, k |-> k, vk |-> "", vs |-> S, vb |-> 0, vm |-> <<>>, h |-> ""]
ErrO(e) == [kind |-> "Err", e |-> e, cid |-> 0, k |-> 0, vk |-> "", vs |-> {}, vb |-> 0, vm |-> <<>>, h |-> ""]
\* model prediction m against observation o (a merged value may or may not coincide with a universe content;
\* the model does not predict byte hashes)
SameOutcome(m, o) == /\ m.kind = o.kind /\ m.e = o.e /\ m.k = o.k /\ m.vk = o.vk /\ m.vs = o.vs
                     /\ m.vb = o.vb /\ m.vm = o.vm
                     /\ (m.cid = 0 \/ m.cid = o.cid)

(***************************************************************************)
(* Model state: the pending reads of the SwarmDriver.                      *)
(*   qs[i]  query i: live, key, the cfg of the FIRST caller (the one the   *)
(*          code uses), the waiting callers, result map content -> peers   *)
(***************************************************************************)
NoRm == [c \in CId |-> {}]
Init0 == [qs |-> <<>>]
Res(s, dl, att, res) == [st |-> s, dl |-> dl, att |-> att, res |-> res]
Live(s) == {i \in 1..Len(s.qs) : s.qs[i].live}
IsLive(s, q) == q \in Live(s)
Versions0(Q) == {c \in CId : Q.rm[c] # {}}
Deliver(Q, o) == {[caller |-> Q.callers[i], o |-> o] : i \in 1..Len(Q.callers)}
Close(s, q) == [s EXCEPT !.qs[q] = [@ EXCEPT !.live = FALSE, !.callers = <<>>, !.rm = NoRm]]

\* ----------------------------------------------------------- cmd.rs GetNetworkRecord
\* A caller joins a pending read of the same key only when it asks for the same quorum, the same
\* expected value and the same way of comparing it (is_register); otherwise a query of its own is
\* started.  The expected holders (eh) are only logged: they neither separate queries nor change outcomes.
Call(s, cl, key, qm, tg, ir) ==
    LET J == {i \in Live(s) : s.qs[i].key = key /\ s.qs[i].quorum = qm /\ s.qs[i].target = tg /\ s.qs[i].isreg = ir}
    IN IF J # {} THEN {Res([s EXCEPT !.qs[i].callers = Append(@, cl)], {}, i, "Ok") : i \in J}
       ELSE IF Len(s.qs) >= MaxQ THEN {}
       ELSE {Res([s EXCEPT !.qs = Append(@, [live |-> TRUE, key |-> key, quorum |-> qm, target |-> tg, isreg |-> ir,
                                              callers |-> <<cl>>, rm |-> NoRm])],
                 {}, Len(s.qs) + 1, "Ok")}

\* A caller gives up: it drops its receiving end.  Nothing is told to the driver; the model is the one of
\* the INTENDED behaviour: the caller no longer takes part in any delivery, the others are unaffected.
Cancel(s, cl) ==
    {Res([s EXCEPT !.qs = [i \in DOMAIN s.qs |-> [s.qs[i] EXCEPT !.callers = SelectSeq(@, LAMBDA c : c # cl)]]], {}, 0, "Ok")}

\* driver.rs does_target_match: byte equality, or (is_register) both decode as registers with the same
\* base register and the same operations
RegSame(a, c) == /\ Content[a].kind = "reg" /\ Content[c].kind = "reg"
                 /\ Content[a].b = Content[c].b /\ Content[a].s = Content[c].s
TMatch(Q, c) == Q.target = 0 \/ (IF Q.isreg THEN RegSame(Q.target, c) ELSE Q.target = c)

\* ----------------------------------------------------------- kad.rs accumulate_get_record_found
TxsOf(S) == UNION {Content[d].s : d \in {e \in S : Content[e].kind = "txn" /\ Content[e].ok}}
Found(s, q, p, c, k) ==
    IF ~IsLive(s, q) THEN {Res(s, {}, 0, "Err")}
    ELSE LET Q == s.qs[q] IN
         IF k # Q.key THEN {Res(s, {}, 0, "Ok")}          \* a record for another key is not an answer
         ELSE LET rm2 == [Q.rm EXCEPT ![c] = @ \cup {p}] IN
              IF Cardinality(rm2[c]) < QV(Q.quorum)
              THEN {Res([s EXCEPT !.qs[q].rm = rm2], {}, 0, "Ok")}
              ELSE LET vers == {d \in CId : rm2[d] # {}}
                       txs == TxsOf(vers)
                       o == IF Cardinality(vers) = 1
                            THEN (IF TMatch(Q, c) THEN OkC(c, k) ELSE ErrO("RecordDoesNotMatch"))
                            ELSE IF txs # {} THEN OkM("txn", txs, k, 0)
                            ELSE SplitO(vers, k)
                   IN {Res(Close(s, q), Deliver(Q, o), 0, "Ok")}

\* ----------------------------------------------------------- kad.rs handle_get_record_finished
Finished(s, q) ==
    IF ~IsLive(s, q) THEN {Res(s, {}, 0, "Ok")}
    ELSE LET Q == s.qs[q]  vers == Versions0(Q)
             c1 == CHOOSE c \in vers : TRUE
             o == IF Cardinality(vers) > 1 THEN SplitO(vers, Q.key)
                  ELSE IF vers = {} THEN ErrO("RecordNotFound")
                  ELSE IF Cardinality(Q.rm[c1]) >= QV(Q.quorum) THEN OkC(c1, Q.key)
                  ELSE ErrO("NotEnoughCopies")
         IN {Res(Close(s, q), Deliver(Q, o), 0, "Ok")}

\* ----------------------------------------------------------- kad.rs handle_get_record_error
NotFoundOrQuorumFailed(s, q) ==
    IF ~IsLive(s, q) THEN {Res(s, {}, 0, "Err")}
    ELSE {Res(Close(s, q), Deliver(s.qs[q], ErrO("RecordNotFound")), 0, "Ok")}

Timeout(s, q) ==
    IF ~IsLive(s, q) THEN {Res(s, {}, 0, "Err")}
    ELSE LET Q == s.qs[q]  vers == Versions0(Q)
             c1 == CHOOSE c \in vers : TRUE
             o == IF Cardinality(vers) > 1 THEN ErrO("QueryTimeout")
                  ELSE IF vers # {} /\ Cardinality(Q.rm[c1]) >= QV(Q.quorum)
                       THEN (IF TMatch(Q, c1) THEN OkC(c1, Q.key) ELSE ErrO("RecordDoesNotMatch"))
                  ELSE ErrO("QueryTimeout")
         IN {Res(Close(s, q), Deliver(Q, o), 0, "Ok")}

\* ----------------------------------------------------------- lib.rs handle_split_record_error
\* `it` = the versions in the order the result map iterates.  The first record with a parsable header
\* dictates the kind; records of another kind are skipped.  "None" = no merge, the split error stays.
\* The requested key addresses ONE record: in the split cases it is the key of register 1 when a version of that register
\* is among the replies, else the key of owner 1's scratchpad when one of its versions is, else a key that addresses
\* neither.  Since fix 72698cf a register / scratchpad whose own address is not the requested key is skipped.
KeyFamOf(it, genuine) == IF ~genuine THEN "none" ELSE IF \E i \in 1..Len(it) : Content[it[i]].kind = "reg" /\ Content[it[i]].b = 1 THEN "reg"
                ELSE IF \E i \in 1..Len(it) : Content[it[i]].kind = "pad" /\ Content[it[i]].b = 1 THEN "pad" ELSE "none"
Addressed(c, it, genuine) == Content[c].kind \notin {"reg", "pad"} \/ (Content[c].b = 1 /\ KeyFamOf(it, genuine) = Content[c].kind)
NoMerge == [kind |-> "None", e |-> "", cid |-> 0, k |-> 0, vk |-> "", vs |-> {}, vb |-> 0, vm |-> <<>>, h |-> ""]
\* genuine: the requested key is the address of the register / scratchpad family among the versions (the split cases);
\* FALSE: it addresses neither (the retry cases run under fresh random keys)
HandleSplitG(it, key, genuine) ==
    LET hdr == SelectSeq(it, LAMBDA c : Content[c].kind # "junk") IN
    IF hdr = <<>> THEN NoMerge ELSE
    LET kd == Content[hdr[1]].kind
        same == SelectSeq(hdr, LAMBDA c : Content[c].kind = kd)
        \* (since fix 72698cf a register / scratchpad of ANOTHER address is skipped like an invalid one)
        goodseq == SelectSeq(same, LAMBDA c : Content[c].ok /\ Addressed(c, it, genuine))
        good == ToSet(goodseq)
        u == UNION {Content[c].s : c \in good}
        \* registers: the first verified one is the accumulator; one with another base fails to merge into it
        rb == IF goodseq = <<>> THEN 0 ELSE Content[goodseq[1]].b
        ru == UNION {Content[c].s : c \in {d \in good : Content[d].b = rb}}
        \* the first valid scratchpad with the highest counter wins
        best == FoldLeft(LAMBDA acc, c : IF ~Content[c].ok \/ ~Addressed(c, it, genuine) THEN acc
                                         ELSE IF acc = 0 THEN c
                                         ELSE IF Content[acc].cnt >= Content[c].cnt THEN acc ELSE c, 0, same)
    IN CASE kd = "txn" -> IF Cardinality(u) > 1 THEN OkM("txn", u, key, 0) ELSE NoMerge
         [] kd = "reg" -> IF good = {} THEN NoMerge ELSE OkM("reg", ru, key, rb)
         [] kd = "pad" -> IF best = 0 THEN NoMerge ELSE OkM("pad", {best}, key, Content[best].b)
         [] OTHER -> NoMerge

\* get_record_from_network when the network layer answers a split with versions iterating as `it`
\* (no retries left): the merge, or the split error carrying every version
HandleSplit(it, key) == HandleSplitG(it, key, TRUE)
ClientSplit(it, key) == LET m == HandleSplit(it, key) IN IF m.kind = "Ok" THEN m ELSE SplitO(ToSet(it), key)

\* get_record_from_network with retries: ans = the network layer's answers to successive attempts,
\*   [a |-> "Ok", c]  [a |-> "Split", it]  [a |-> "Err", e];  at most `att` attempts are made.
\* Returns [o |-> outcome, used |-> attempts made]
RECURSIVE ClientGet(_, _, _, _)
ClientGet(ans, att, key, i) ==
    LET a == ans[i]
        m == IF a.a = "Split" THEN HandleSplitG(a.it, key, FALSE) ELSE NoMerge IN
    IF a.a = "Ok" THEN [o |-> OkC(a.c, key), used |-> i]
    ELSE IF m.kind = "Ok" THEN [o |-> m, used |-> i]
    ELSE IF i < att /\ i < Len(ans) THEN ClientGet(ans, att, key, i + 1)
    ELSE [o |-> IF a.a = "Split" THEN SplitO(ToSet(a.it), key) ELSE ErrO(a.e), used |-> i]

(***************************************************************************)
(* A step x (model or observed):                                           *)
(*   ev      "Call" | "Cancel" | "Found" | "Finished" | "NotFound" |       *)
(*           "QuorumFailed" | "Timeout" | "SplitCase" | "ClientRetry"      *)
(*   Call:   caller, key, quorum, target, isreg (compare the expected      *)
(*           value as a register), eh (expected holders: 0 none, 1 peers   *)
(*           {1,2}, 2 peers {7,8});  att = query it now waits on           *)
(*   Cancel: caller (it drops its receiving end)                           *)
(*   reply/terminating events: q, and for Found p, c, k (key field of the  *)
(*           record the peer returned)                                     *)
(*   dl      outcomes delivered in this step: set of [caller, o]           *)
(*   pq      queries still pending after the step                          *)
(*   g, g2   ghost history before / after                                  *)
(*   SplitCase:   key, target, vs (set of versions), runs = sequence of    *)
(*           [it, o]: result of get_record_from_network when the result    *)
(*           map iterates in order it; txnbytes = the byte comparison of   *)
(*           merged transaction records is switched on                     *)
(*   ClientRetry: key, ans, natt, o, used                                  *)
(***************************************************************************)
TermEv == {"Finished", "NotFound", "QuorumFailed", "Timeout"}
ErrEv == {"NotFound", "QuorumFailed", "Timeout"}
KadEv == TermEv \cup {"Call", "Found", "Cancel"}

NoCfg == [key |-> 0, quorum |-> "One", target |-> 0, isreg |-> FALSE, eh |-> 0]
Ghost0 == [cfg |-> [c \in Caller |-> NoCfg],        \* what each caller asked for
           qOf |-> [c \in Caller |-> 0],            \* the query it waits on (0: none)
           called |-> {},
           cancelled |-> {},                        \* callers that gave up before they had an outcome
           replies |-> [q \in Query |-> {}],        \* [p, c, k] returned by peers, per query
           got |-> {}]                              \* callers that have received an outcome
GhostNext(g, x) ==
    [cfg |-> IF x.ev = "Call" THEN [g.cfg EXCEPT ![x.caller] = [key |-> x.key, quorum |-> x.quorum, target |-> x.target,
                                                                 isreg |-> x.isreg, eh |-> x.eh]]
             ELSE g.cfg,
     qOf |-> IF x.ev = "Call" THEN [g.qOf EXCEPT ![x.caller] = x.att] ELSE g.qOf,
     called |-> IF x.ev = "Call" THEN g.called \cup {x.caller} ELSE g.called,
     cancelled |-> IF x.ev = "Cancel" /\ x.caller \in g.called \ g.got THEN g.cancelled \cup {x.caller} ELSE g.cancelled,
     replies |-> IF x.ev = "Found" /\ x.q \in Query
                 THEN [g.replies EXCEPT ![x.q] = @ \cup {[p |-> x.p, c |-> x.c, k |-> x.k]}]
                 ELSE g.replies,
     got |-> IF x.ev \in KadEv THEN g.got \cup {d.caller : d \in x.dl} ELSE g.got]

\* ---- the vocabulary of the statement
\* distinct peers that returned content v under the requested key (a peer answering twice counts once)
Agree(g, q, v, key) == IF q \in Query THEN {r.p : r \in {y \in g.replies[q] : y.c = v /\ y.k = key}} ELSE {}
\* the content versions returned for the requested key
Versions(g, q, key) == IF q \in Query THEN {r.c : r \in {y \in g.replies[q] : y.k = key}} ELSE {}

\* the deterministic merges the statement names; versions that are not valid records of the kind do not
\* contribute, and neither do versions of ANOTHER register / of a foreign owner's scratchpad: the read is
\* "for the requested key", which addresses one register (owner, name) resp. one owner's scratchpad, so a
\* record of another address, however validly signed, is not a version of what was asked for.
\* A SET of acceptable values: empty when the kind has no valid version; several scratchpads
\* when valid ones share the highest counter (the statement does not rank them).
RegMerge(S) == LET ok == {c \in S : Content[c].kind = "reg" /\ Content[c].ok /\ Content[c].b = 1}
               IN IF ok = {} THEN {} ELSE {[k |-> "reg", s |-> UNION {Content[c].s : c \in ok}, b |-> 1]}
PadTop(S) == LET ok == {c \in S : Content[c].kind = "pad" /\ Content[c].ok /\ Content[c].b = 1}
             IN {c \in ok : \A d \in ok : Content[d].cnt <= Content[c].cnt}
PadMerge(S) == {[k |-> "pad", s |-> {c}, b |-> 1] : c \in PadTop(S)}
TxnMerge(S) == LET ok == {c \in S : Content[c].kind = "txn" /\ Content[c].ok}
               IN IF ok = {} THEN {} ELSE {[k |-> "txn", s |-> UNION {Content[c].s : c \in ok}, b |-> 0]}
Merges(S) == RegMerge(S) \cup PadMerge(S) \cup TxnMerge(S)
OVal(o) == [k |-> o.vk, s |-> o.vs, b |-> o.vb]
\* a union lists every item once: a merged value that repeats an item is not the union
NoRepeat(o) == Len(o.vm) = Cardinality(o.vs) /\ ToSet(o.vm) = o.vs
IsMergeOf(o, S) == Cardinality(S) >= 2 /\ OVal(o) \in Merges(S) /\ NoRepeat(o)

\* "it equals the caller's expected value": the same bytes; for a caller that gave its expected value as a
\* register (is_register) the same register -- same base, same operations -- whatever its serialisation
Expected(cfg, o) == IF cfg.isreg
                    THEN /\ Content[cfg.target].kind = "reg" /\ o.vk = "reg"
                         /\ o.vb = Content[cfg.target].b /\ o.vs = Content[cfg.target].s /\ NoRepeat(o)
                    ELSE o.cid = cfg.target

\* Ok(v) to a caller that asked with cfg: the returned record is for the requested key [I8]; at least Q
\* distinct peers returned byte-identical v for that key, or v is the merge of the differing versions;
\* and v is the expected value when one was given
SoundOk(g, q, o, cfg) ==
    /\ o.k = cfg.key
    /\ \/ o.cid # 0 /\ Cardinality(Agree(g, q, o.cid, cfg.key)) >= QV(cfg.quorum)
       \/ IsMergeOf(o, Versions(g, q, cfg.key))
    /\ cfg.target # 0 => Expected(cfg, o)

\* ---- clause witnesses on reply / terminating steps (witness = caller)
W_QuorumSound_Kad(x) ==
    {d.caller : d \in {y \in x.dl : y.o.kind = "Ok" /\ ~SoundOk(x.g2, x.g2.qOf[y.caller], y.o, x.g2.cfg[y.caller])}}

\* differing content: the full set of versions, or the merge -- never one of them, never a loss.
\* (A read that ends by an error event -- not found, quorum failed, timeout -- may report that error.)
W_SplitComplete_Kad(x) ==
    {d.caller : d \in {y \in x.dl :
        LET cfg == x.g2.cfg[y.caller]
            vs == Versions(x.g2, x.g2.qOf[y.caller], cfg.key) IN
        \/ y.o.kind = "Split" /\ ~(y.o.vs = vs /\ Cardinality(vs) >= 2 /\ y.o.k = cfg.key)
        \/ y.o.kind = "Ok" /\ Cardinality(vs) >= 2 /\ ~IsMergeOf(y.o, vs)
        \/ y.o.kind = "Err" /\ Cardinality(vs) >= 2 /\ x.ev \notin ErrEv }}

\* every caller exactly one outcome, a value or a specific error, only when its query ends, none left over.
\* A caller that gave up (Cancel) is owed nothing; every OTHER caller -- also one sharing its query with
\* callers that gave up -- is still owed its one outcome.
W_ExactlyOne_Kad(x) ==
       {d.caller : d \in {y \in x.dl : \/ y.caller \in x.g.got                  \* a second outcome
                                        \/ y.o.kind = "Dropped"                 \* neither value nor error
                                        \/ x.ev \in {"Call", "Cancel"}          \* before any reply / out of the blue
                                        \/ x.g2.qOf[y.caller] # x.q             \* on another query's event
                                        \/ x.q \in x.pq                         \* while its query goes on
                                        \* at a REPLY, although no version has this caller's quorum: the peers are
                                        \* still answering, so neither "not enough copies" nor a split ("the full
                                        \* set of versions") can be told yet
                                        \/ (x.ev = "Found" /\ ~\E v \in Versions(x.g2, x.q, x.g2.cfg[y.caller].key) :
                                               Cardinality(Agree(x.g2, x.q, v, x.g2.cfg[y.caller].key)) >= QV(x.g2.cfg[y.caller].quorum)) }}
  \cup {c \in x.g2.called \ x.g2.cancelled :
                            /\ c \notin x.g2.got                                \* left without an outcome:
                            /\ \/ x.g2.qOf[c] \notin x.pq                       \*   its query is gone
                               \/ (x.ev \in TermEv /\ x.g2.qOf[c] = x.q) }      \*   or was just terminated

\* ---- clause witnesses on client-side steps (witness = run index, 0 for the whole case)
OutcomeEq(a, b) == /\ a.kind = b.kind /\ a.e = b.e /\ a.vk = b.vk /\ a.vs = b.vs /\ a.k = b.k
                   /\ a.vb = b.vb /\ a.vm = b.vm
\* The merge is a function of the set of versions: the same record -- the same BYTES, the statement counts
\* agreement in byte-identical content -- whatever the order the versions are iterated in.
\* (txnbytes: whether the byte comparison is applied to merged transaction records too.)
BytesEq(a, b, txnbytes) == (a.kind = "Ok" /\ (a.vk # "txn" \/ txnbytes)) => a.h = b.h
W_MergeDeterministic(x) ==
    IF x.ev = "SplitCase" /\ \E i, j \in 1..Len(x.runs) : \/ ~OutcomeEq(x.runs[i].o, x.runs[j].o)
                                                          \/ ~BytesEq(x.runs[i].o, x.runs[j].o, x.txnbytes)
    THEN {0} ELSE {}
SoundMerge(o, S, key, tg) == /\ o.k = key /\ IsMergeOf(o, S) /\ (tg # 0 => o.cid = tg)
W_QuorumSound_Client(x) ==
    IF x.ev = "SplitCase"
    THEN {i \in 1..Len(x.runs) : x.runs[i].o.kind = "Ok" /\ ~SoundMerge(x.runs[i].o, x.vs, x.key, x.target)}
    ELSE IF x.ev = "ClientRetry" /\ x.o.kind = "Ok"
    THEN LET a == x.ans[x.used] IN
         IF /\ x.used \in 1..Len(x.ans)
            /\ \/ a.a = "Ok" /\ x.o.cid = a.c /\ x.o.k = x.key
               \/ a.a = "Split" /\ SoundMerge(x.o, ToSet(a.it), x.key, 0)
         THEN {} ELSE {1}
    ELSE {}
W_SplitComplete_Client(x) ==
    IF x.ev = "SplitCase"
    THEN {i \in 1..Len(x.runs) : LET o == x.runs[i].o IN
              \/ o.kind = "Split" /\ ~(o.vs = x.vs /\ o.k = x.key)
              \/ o.kind \in {"Err", "Dropped"}}
    ELSE IF x.ev = "ClientRetry" /\ x.used \in 1..Len(x.ans) /\ x.ans[x.used].a = "Split" /\ x.o.kind # "Ok"
    THEN (IF x.o.kind = "Split" /\ x.o.vs = ToSet(x.ans[x.used].it) /\ x.o.k = x.key THEN {} ELSE {1})
    ELSE {}
\* the one outcome of a read with retries is the outcome of its last attempt; no attempt beyond the budget
W_ExactlyOne_Client(x) ==
    IF x.ev = "ClientRetry"
    THEN (IF /\ x.used \in 1..Len(x.ans) /\ x.used <= x.natt
             /\ x.o.kind # "Dropped"
             /\ (x.ans[x.used].a = "Err" => x.o.kind = "Err" /\ x.o.e = x.ans[x.used].e)
             /\ (x.o.kind = "Split" => x.ans[x.used].a = "Split")
          THEN {} ELSE {1})
    ELSE {}

Clauses == {"C05_QuorumSound", "C05_SplitComplete", "C05_ExactlyOne", "C05_MergeDeterministic"}
Witnesses(c, x) ==
    CASE c = "C05_QuorumSound"        -> IF x.ev \in KadEv THEN W_QuorumSound_Kad(x) ELSE W_QuorumSound_Client(x)
      [] c = "C05_SplitComplete"      -> IF x.ev \in KadEv THEN W_SplitComplete_Kad(x) ELSE W_SplitComplete_Client(x)
      [] c = "C05_ExactlyOne"         -> IF x.ev \in KadEv THEN W_ExactlyOne_Kad(x) ELSE W_ExactlyOne_Client(x)
      [] c = "C05_MergeDeterministic" -> W_MergeDeterministic(x)

(***************************************************************************)
(* Known findings (known_findings.json): genuine defects that are recorded *)
(* rather than repaired.  A matcher recognises ONE specific failing        *)
(* pattern; every other counter-witness of the same clause is a violation. *)
(***************************************************************************)
\* C05-merge-bypasses-target: a merged record (transactions accumulated in kad.rs; registers / scratchpad /
\* transactions merged in lib.rs) is handed to the caller without does_target_match: a caller that gave an
\* expected value gets Ok(merge) although the merge is not that value.  Only this: the outcome is the
\* statement's merge of >= 2 versions, carries the requested key, and differs from the target.
KF_C05_1(c, x, w) ==
    /\ c = "C05_QuorumSound"
    /\ IF x.ev \in KadEv
       THEN \E d \in x.dl : /\ d.caller = w /\ d.o.kind = "Ok"
                            /\ LET cfg == x.g2.cfg[w] IN
                               /\ cfg.target # 0 /\ ~Expected(cfg, d.o)
                               /\ SoundOk(x.g2, x.g2.qOf[w], d.o, [cfg EXCEPT !.target = 0])
                               /\ IsMergeOf(d.o, Versions(x.g2, x.g2.qOf[w], cfg.key))
       ELSE /\ x.ev = "SplitCase" /\ w \in 1..Len(x.runs) /\ x.target # 0
            /\ x.runs[w].o.cid # x.target
            /\ SoundMerge(x.runs[w].o, x.vs, x.key, 0)

\* every run of a split case is one of the outcomes the statement allows (a merge of some kind present,
\* or the full set) -- the runs merely disagree with each other
RunsAllowed(x) == \A i \in 1..Len(x.runs) : LET o == x.runs[i].o IN
                     \/ o.kind = "Ok" /\ SoundMerge(o, x.vs, x.key, 0)
                     \/ o.kind = "Split" /\ o.vs = x.vs /\ o.k = x.key
\* (the known findings below are about WHICH value is returned: runs returning the same value return the same bytes)
SameValueSameBytes(x) == \A i, j \in 1..Len(x.runs) :
                            OutcomeEq(x.runs[i].o, x.runs[j].o) => BytesEq(x.runs[i].o, x.runs[j].o, x.txnbytes)
HeaderKinds(S) == {Content[c].kind : c \in {d \in S : Content[d].kind # "junk"}}

\* C05-mixed-kinds-first-record-dictates: with versions of different record kinds the first record the
\* result map iterates dictates the kind (FIXME in handle_split_record_error), so the result depends on
\* HashMap order.  Only: >= 2 header kinds among the versions, every single run allowed by the statement.
KF_C05_2(c, x, w) == /\ c = "C05_MergeDeterministic" /\ x.ev = "SplitCase"
                     /\ Cardinality(HeaderKinds(x.vs)) >= 2
                     /\ RunsAllowed(x)
                     /\ SameValueSameBytes(x)

\* C05-equal-counter-scratchpad-first-wins: among validly signed scratchpads sharing the highest counter
\* with different payloads the first one iterated wins (old.count() >= new.count()).  Only: one header
\* kind (scratchpad), >= 2 valid pads at the top counter, every run returns one of them.
KF_C05_3(c, x, w) == /\ c = "C05_MergeDeterministic" /\ x.ev = "SplitCase"
                     /\ HeaderKinds(x.vs) = {"pad"}
                     /\ Cardinality(PadTop(x.vs)) >= 2
                     /\ \A i \in 1..Len(x.runs) : x.runs[i].o.kind = "Ok" /\ x.runs[i].o.vk = "pad"
                                                  /\ x.runs[i].o.vs \subseteq PadTop(x.vs)
                                                  /\ Cardinality(x.runs[i].o.vs) = 1 /\ x.runs[i].o.k = x.key
                     /\ SameValueSameBytes(x)

KFMatch(c, x, w) == IF KF_C05_1(c, x, w) THEN "C05-merge-bypasses-target"
                    ELSE IF KF_C05_2(c, x, w) THEN "C05-mixed-kinds-first-record-dictates"
                    ELSE IF KF_C05_3(c, x, w) THEN "C05-equal-counter-scratchpad-first-wins"
                    ELSE "none"

\* [clause, witness, finding id or "none"]
Verdicts(x) == UNION {{[clause |-> c, w |-> w, kf |-> KFMatch(c, x, w)] : w \in Witnesses(c, x)} : c \in Clauses}

\* the results the model allows for a reply / terminating step (drift predicate on implementation traces)
ModelResults(x) ==
    CASE x.ev = "Call"         -> Call(x.s, x.caller, x.key, x.quorum, x.target, x.isreg)
      [] x.ev = "Cancel"       -> Cancel(x.s, x.caller)
      [] x.ev = "Found"        -> Found(x.s, x.q, x.p, x.c, x.k)
      [] x.ev = "Finished"     -> Finished(x.s, x.q)
      [] x.ev = "NotFound"     -> NotFoundOrQuorumFailed(x.s, x.q)
      [] x.ev = "QuorumFailed" -> NotFoundOrQuorumFailed(x.s, x.q)
      [] x.ev = "Timeout"      -> Timeout(x.s, x.q)
=============================================================================
