SPECIFICATION Spec
CONSTANTS
  NK = 8
  NT = 4
  NH = 4
  MaxPar = 5
INVARIANT Report
CHECK_DEADLOCK FALSE
