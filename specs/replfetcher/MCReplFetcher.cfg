SPECIFICATION Spec
CONSTANTS
  NK = 3
  NT = 2
  NH = 2
  MaxPar = 2
  MaxList = 2
  Record = FALSE
  Depth = 3
INVARIANTS NoClauseFalsified TypeOK
CONSTRAINT Bounded
CHECK_DEADLOCK FALSE
