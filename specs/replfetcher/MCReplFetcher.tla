--------------------------- MODULE MCReplFetcher ---------------------------
(***************************************************************************)
(* Model-checking harness for ReplFetcher: the environment (holders that   *)
(* advertise, the store that completes fetches, timers, range / fullness   *)
(* updates) drives the fetcher in every order.  `bad` holds the clauses of *)
(* C08 falsified by the last step; the invariant is bad = {}.              *)
(* In simulation mode `hist` records the behaviour so that it can be       *)
(* replayed into the real fetcher.                                         *)
(***************************************************************************)
EXTENDS ReplFetcher, TLC, Json

CONSTANTS Depth,       \* bound on the number of fetcher calls in a behaviour
          MaxList,     \* largest advertisement
          Record       \* TRUE: keep the history (simulation); FALSE: exhaustive checking

VARIABLES st, held, kh, bad, hist, n,
          lag          \* lag[k] = t: the fetcher has been told that (k, t) was put, the store's index does not list it yet
vars == <<st, held, kh, bad, hist, n, lag>>

Lists == {L \in SUBSET (Key \X Type) : Cardinality(L) \in 1..MaxList}
NoHeld == [k \in Key |-> 0]

Init == st = Init0 /\ held = NoHeld /\ kh = NoHeld /\ bad = {} /\ hist = <<>> /\ n = 0 /\ lag = NoHeld

\* one fetcher call: x0 = step record without result
Step(x0, newkh) ==
    \E r \in ModelResults(x0) :
       LET x == [x0 EXCEPT !.r = r, !.kh = newkh] IN
       /\ st' = r.st
       /\ kh' = newkh
       /\ bad' = FalsifiedBy(x)
       /\ n' = n + 1
       /\ hist' = IF Record THEN Append(hist, [x EXCEPT !.s = 0]) ELSE hist

Base(ev) == [ev |-> ev, s |-> st, r |-> 0, kh |-> 0, h |-> 0, list |-> {}, held |-> held, k |-> 0, t |-> 0,
             rg |-> 0, e |-> 0]

DoAddKeys == \E h \in Holder, L \in Lists :
                Step([Base("AddKeys") EXCEPT !.h = h, !.list = L], held) /\ UNCHANGED <<held, lag>>
DoNextKeys == Step(Base("NextKeys"), kh) /\ UNCHANGED <<held, lag>>
\* the store finished writing a fetched (or uploaded) record, then tells the fetcher
DoStorePut == \E k \in Key, t \in Type :
                /\ held[k] # t
                /\ held' = [held EXCEPT ![k] = t]
                /\ lag' = [lag EXCEPT ![k] = 0]
                /\ Step([Base("NotifyPut") EXCEPT !.k = k, !.t = t, !.held = held'], [kh EXCEPT ![k] = t])
\* the same, but the store's index (the held map the fetcher is shown with the next advertisement) lists the
\* record only later: between PutLocalRecord and AddLocalRecordAsStored advertisements see the OLD held map
DoStorePutLagging == \E k \in Key, t \in Type :
                /\ held[k] # t /\ lag[k] = 0
                /\ lag' = [lag EXCEPT ![k] = t]
                /\ Step([Base("NotifyPut") EXCEPT !.k = k, !.t = t], [kh EXCEPT ![k] = t]) /\ UNCHANGED held
\* the index catches up (no fetcher call)
DoIndex == \E k \in Key : /\ lag[k] # 0
                          /\ held' = [held EXCEPT ![k] = lag[k]]
                          /\ lag' = [lag EXCEPT ![k] = 0]
                          /\ UNCHANGED <<st, kh, bad, hist, n>>
DoNotifyEarly == \E e \in st.og :
                Step([Base("NotifyEarly") EXCEPT !.k = e.k, !.t = e.t], kh) /\ UNCHANGED <<held, lag>>
DoSetRange == \E r \in 1..NK : r # st.range /\ Step([Base("SetRange") EXCEPT !.rg = r], kh) /\ UNCHANGED <<held, lag>>
DoSetFarthest == \E k \in Key : Step([Base("SetFarthest") EXCEPT !.k = k], kh) /\ UNCHANGED <<held, lag>>
DoExpireFetch == \E e \in st.og \ st.ogx : Step([Base("ExpireFetch") EXCEPT !.e = e], kh) /\ UNCHANGED <<held, lag>>
DoExpirePending == \E e \in st.tf \ st.tfx : Step([Base("ExpirePending") EXCEPT !.e = e], kh) /\ UNCHANGED <<held, lag>>

Next == DoAddKeys \/ DoNextKeys \/ DoStorePut \/ DoStorePutLagging \/ DoIndex \/ DoNotifyEarly \/ DoSetRange \/ DoSetFarthest
        \/ DoExpireFetch \/ DoExpirePending
Spec == Init /\ [][Next]_vars

NoClauseFalsified == bad = {}
Bounded == n <= Depth
TypeOK == st \in State

\* ---- scenario output (simulation): one JSON array per behaviour, printed at the depth bound
Json1(x) == [ev |-> x.ev, h |-> x.h, list |-> x.list, held |-> x.held, k |-> x.k, t |-> x.t, rg |-> x.rg,
             e |-> x.e, issued |-> x.r.issued, failed |-> x.r.failed,
             tf |-> x.r.st.tf, og |-> x.r.st.og, range |-> x.r.st.range, far |-> x.r.st.far]
Emit == (Record /\ Len(hist) = Depth) => PrintT(<<"SCN", ToJson([i \in 1..Len(hist) |-> Json1(hist[i])])>>)
=============================================================================
