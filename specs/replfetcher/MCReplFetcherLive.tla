------------------------- MODULE MCReplFetcherLive -------------------------
(***************************************************************************)
(* Liveness part of C08 on the model: "any in-range record that a          *)
(* responsive holder keeps advertising is fetched after finitely many      *)
(* rounds".                                                                *)
(*                                                                         *)
(* Holder 1 is responsive: it keeps advertising every key the node does    *)
(* not hold (weak fairness) and its fetches always complete.  The other    *)
(* holders advertise anything, and their fetches may time out; a holder    *)
(* reported as failed stops being listened to (the node evicts it).        *)
(* Range and fullness limit are fixed by the initial state.                *)
(***************************************************************************)
EXTENDS ReplFetcher, TLC


VARIABLES st, held, dead
vars == <<st, held, dead>>

T1 == 1
NoHeld == [k \in Key |-> 0]
\* other holders advertise one record, or every key in one version
Lists == {{x} : x \in Key \X Type} \cup {{<<k, t>> : k \in Key} : t \in Type}

Init == /\ \E r \in 0..NK, f \in 0..NK : st = [Init0 EXCEPT !.range = r, !.far = f]
        /\ held = NoHeld /\ dead = {}

Apply(results) == \E r \in results : st' = r.st /\ dead' = dead \cup r.failed

\* the responsive holder advertises everything the node lacks
Advertise1 == LET L == {<<k, T1>> : k \in {j \in Key : held[j] = 0}} IN
              /\ L # {} /\ Apply(AddKeys(st, 1, L, held)) /\ UNCHANGED held
\* (other holders do not produce an endless stream of new versions of keys the node already holds:
\*  with a bounded parallel-fetch budget such a stream of closer keys could starve farther ones for ever)
AdvertiseOther == \E h \in Holder \ ({1} \cup dead), L \in Lists :
                     /\ \A x \in L : held[x[1]] = 0
                     /\ Apply(AddKeys(st, h, L, held)) /\ UNCHANGED held
\* a started fetch completes: the record is stored and the fetcher is told
Complete(e) == /\ e \in st.og /\ e \notin st.ogx
               /\ held' = [held EXCEPT ![e.k] = e.t]
               /\ Apply(NotifyPut(st, e.k, e.t))
Expire == \E e \in st.og \ st.ogx : e.h # 1 /\ Apply(ExpireFetch(st, e)) /\ UNCHANGED held
Tick == Apply(NextKeys(st)) /\ UNCHANGED held

Next == Advertise1 \/ AdvertiseOther \/ (\E e \in Entry : Complete(e)) \/ Expire \/ Tick
Fair == /\ WF_vars(Advertise1)
        /\ WF_vars(Tick)
        /\ \A e \in Entry : WF_vars(Complete(e))
Spec == Init /\ [][Next]_vars /\ Fair

Wanted(k) == (st.range = 0 \/ k <= st.range) /\ (st.far = 0 \/ k <= st.far)
C08_Progress == \A k \in Key : Wanted(k) ~> (held[k] # 0)
=============================================================================
