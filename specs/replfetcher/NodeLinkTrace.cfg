SPECIFICATION TSpec
CONSTANTS
  NK = 4
  Far = 2
INVARIANT Report
CHECK_DEADLOCK FALSE
