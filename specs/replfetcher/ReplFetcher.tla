---------------------------- MODULE ReplFetcher ----------------------------
(***************************************************************************)
(* Replication fetcher of a node (property C08).                           *)
(*                                                                         *)
(* Implementation-shaped model of ant-networking/src/replication_fetcher.rs*)
(* One operator per public call of the fetcher; each returns the SET of    *)
(* possible results [st, issued, failed] (the only nondeterminism is the   *)
(* order among queue entries with the same key: HashMap iteration order +  *)
(* stable sort).  Keys are identified by their distance rank to the node   *)
(* (1 = closest); a range / limit is a rank bound, 0 = unset.              *)
(*                                                                         *)
(* The clause operators C08_* at the end are written from the statement of *)
(* C08 and are evaluated both on the model (MCReplFetcher) and on steps    *)
(* recorded from the real code (ReplFetcherTrace).                         *)
(***************************************************************************)
EXTENDS Naturals, FiniteSets, Sequences

CONSTANTS NK,        \* keys 1..NK, numbered by distance rank
          NT,        \* record types/versions 1..NT  (0 = "not held")
          NH,        \* holders 1..NH
          MaxPar     \* parallel-fetch limit (MAX_PARALLEL_FETCH = K_VALUE = 20 in the code)

Key == 1..NK
Type == 1..NT
Holder == 1..NH
Entry == [k : Key, t : Type, h : Holder]
KT(e) == <<e.k, e.t>>
KTs(S) == {KT(e) : e \in S}

\* fetcher state
\*   tf  queued entries (to_be_fetched)        tfx  those whose pending deadline has passed
\*   og  in-flight fetches (on_going_fetches)  ogx  those whose fetch deadline has passed
\*   range  responsible range (0 unset)        far  farthest acceptable rank once full (0 unset)
State == [tf : SUBSET Entry, tfx : SUBSET Entry, og : SUBSET Entry, ogx : SUBSET Entry,
          range : 0..NK, far : 0..NK]
Init0 == [tf |-> {}, tfx |-> {}, og |-> {}, ogx |-> {}, range |-> 0, far |-> 0]

Res(s, iss, failed) == [st |-> s, issued |-> iss, failed |-> failed]

\* ----------------------------------------------------------- next_keys_to_fetch
\* prune_expired_keys_and_slow_nodes
Pruned(s) == LET fh == {e.h : e \in s.ogx}
             IN [st |-> [s EXCEPT !.og = s.og \ s.ogx, !.ogx = {},
                                  !.tf = {e \in s.tf : e.h \notin fh},
                                  !.tfx = {e \in s.tfx : e.h \notin fh}],
                 failed |-> fh]

MinKey(S) == CHOOSE k \in {e.k : e \in S} : \A e \in S : k <= e.k

\* the sorted loop: closest key first, entries of one key in any order
RECURSIVE Fill(_, _, _)
Fill(og, rem, acc) ==
    IF rem = {} \/ Cardinality(og) >= MaxPar THEN {[og |-> og, iss |-> acc]}
    ELSE LET m == MinKey(rem) IN
         UNION { IF KT(e) \notin KTs(og) THEN Fill(og \cup {e}, rem \ {e}, acc \cup {e})
                                          ELSE Fill(og, rem \ {e}, acc)
                 : e \in {x \in rem : x.k = m} }

NextKeys(s0) ==
    LET p == Pruned(s0)  s == p.st IN
    IF Cardinality(s.og) >= MaxPar \/ s.tf = {} THEN {Res(s, {}, p.failed)}
    ELSE { Res([s EXCEPT !.og = f.og, !.tf = s.tf \ f.iss, !.tfx = s.tfx \ f.iss], f.iss, p.failed)
           : f \in Fill(s.og, s.tf, {}) }

\* ----------------------------------------------------------- add_keys
\* held : [Key -> 0..NT]   the locally stored map handed in by the caller
RemoveStored(s, held) ==
    LET keep(S) == {e \in S : held[e.k] # e.t} IN
    [s EXCEPT !.tf = keep(s.tf), !.tfx = keep(s.tfx), !.og = keep(s.og), !.ogx = keep(s.ogx)]

\* the advertised (key,type) pairs that survive the held / already-queued / farthest filters
Survivors(s, h, list, held) ==
    {x \in list : /\ held[x[1]] # x[2]          \* this very version is not held (another version may be)
                  /\ [k |-> x[1], t |-> x[2], h |-> h] \notin s.tf
                  /\ (s.far = 0 \/ x[1] <= s.far)}

AddKeys(s0, h, list, held) ==
    LET new0 == Survivors(s0, h, list, held)
        s1 == RemoveStored(s0, held)
        fast == Cardinality(new0) = 1
        x == CHOOSE y \in new0 : TRUE
        fe == [k |-> x[1], t |-> x[2], h |-> h]
        fastIss == IF fast /\ KT(fe) \notin KTs(s1.og) THEN {fe} ELSE {}
        s2 == [s1 EXCEPT !.og = s1.og \cup fastIss]
        new1 == IF fast THEN {} ELSE new0
        s3 == [s2 EXCEPT !.tf = s2.tf \ s2.tfx, !.tfx = {}]
        new2 == IF s3.range # 0 THEN {y \in new1 : y[1] <= s3.range} ELSE new1
        s4 == [s3 EXCEPT !.tf = s3.tf \cup {[k |-> y[1], t |-> y[2], h |-> h] : y \in new2}]
    IN { Res(r.st, fastIss \cup r.issued, r.failed) : r \in NextKeys(s4) }

\* ----------------------------------------------------------- notifications, limits
NotifyPut(s, k, t) ==
    NextKeys([s EXCEPT !.tf = {e \in s.tf : ~(e.k = k /\ e.t = t)},
                       !.tfx = {e \in s.tfx : ~(e.k = k /\ e.t = t)},
                       !.og = {e \in s.og : e.k # k},
                       !.ogx = {e \in s.ogx : e.k # k}])

NotifyEarly(s, k, t) ==
    LET keep(S) == {e \in S : ~(e.k = k /\ e.t = t)} IN
    NextKeys([s EXCEPT !.tf = keep(s.tf), !.tfx = keep(s.tfx), !.og = keep(s.og), !.ogx = keep(s.ogx)])

SetRange(s, r) == {Res([s EXCEPT !.range = r], {}, {})}

SetFarthest(s, k) ==
    IF s.far # 0 /\ k >= s.far THEN {Res(s, {}, {})}
    ELSE LET keep(S) == {e \in S : e.k <= k} IN
         {Res([s EXCEPT !.tf = keep(s.tf), !.tfx = keep(s.tfx), !.og = keep(s.og), !.ogx = keep(s.ogx),
                        !.far = k], {}, {})}

\* only an entry that exists can run out of time (a behaviour replayed into an implementation that took another
\* admissible path may name an entry the implementation does not have: nothing happens then)
ExpireFetch(s, e) == {Res([s EXCEPT !.ogx = IF e \in s.og THEN s.ogx \cup {e} ELSE s.ogx], {}, {})}
ExpirePending(s, e) == {Res([s EXCEPT !.tfx = IF e \in s.tf THEN s.tfx \cup {e} ELSE s.tfx], {}, {})}

(***************************************************************************)
(* A step: [ev, s (state before), r (result: st, issued, failed), + args]  *)
(*   ev \in {"AddKeys","NextKeys","NotifyPut","NotifyEarly","SetRange",    *)
(*           "SetFarthest","ExpireFetch","ExpirePending"}                  *)
(*   AddKeys:  h, list, held      NotifyPut/NotifyEarly: k, t              *)
(*   kh : the held map as last told to the fetcher (ghost; equals held at  *)
(*        AddKeys steps)                                                   *)
(***************************************************************************)
Scheduling == {"AddKeys", "NextKeys", "NotifyPut", "NotifyEarly"}   \* steps that prune + batch

\* In-flight fetches that MUST leave the in-flight set during this step: the record arrived /
\* was reported complete / is told to be stored, or (in a step that looks at deadlines) timed out.
Completed(x) ==
           (IF x.ev = "AddKeys"     THEN {e \in x.s.og : x.held[e.k] = e.t} ELSE {})
      \* a fetch is identified on the wire by its key only, and what gets stored after merging may bear
      \* another type than the one advertised: the arrival of the record of key k completes every
      \* in-flight fetch of k (otherwise a holder that did answer would later be reported as failed)
      \cup (IF x.ev = "NotifyPut"   THEN {e \in x.s.og : e.k = x.k} ELSE {})
      \cup (IF x.ev = "NotifyEarly" THEN {e \in x.s.og : e.k = x.k /\ e.t = x.t} ELSE {})
\* Fetches that MAY additionally leave: those beyond a newly set fullness limit.
CompletedOpt(x) ==
           (IF x.ev = "SetFarthest" THEN {e \in x.s.og : e.k > x.k} ELSE {})
\* Fetches whose deadline has passed leave in every step that looks at deadlines; their holder must be
\* reported unless the fetch (also) counts as completed in this very step.
TimedOut(x)     == IF x.ev \in Scheduling THEN x.s.ogx \ Completed(x) ELSE {}
TimedOutMust(x) == TimedOut(x) \ CompletedOpt(x)
MustLeave(x) == Completed(x) \cup TimedOut(x)
MayLeave(x) == MustLeave(x) \cup CompletedOpt(x)
\* fetches that were in flight before the step and still are (a fetch that MAY leave can be dropped
\* and started again in the same step: then it is in `issued` and does not count as staying)
Stay(x) == ((x.s.og \ MustLeave(x)) \cap x.r.st.og) \ x.r.issued

IsFast(x) == x.ev = "AddKeys" /\ Cardinality(Survivors(x.s, x.h, x.list, x.held)) = 1
FastEntry(x) == LET y == CHOOSE y \in Survivors(x.s, x.h, x.list, x.held) : TRUE
                IN [k |-> y[1], t |-> y[2], h |-> x.h]
BatchIssued(x) == IF IsFast(x) THEN x.r.issued \ {FastEntry(x)} ELSE x.r.issued

\* "schedules fetches only for records it does not already hold"
OnlyMissing(x) == \A i \in x.r.issued : x.kh[i.k] = 0 \/ x.kh[i.k] # i.t

\* "records taken from periodic multi-record advertisements must also lie within its responsible
\*  distance": whatever an advertisement adds to the queue is within the range (a single surviving
\*  key is fetched directly and never queued)
BatchInRange(x) == (x.ev = "AddKeys" /\ x.s.range # 0) =>
                      \A e \in x.r.st.tf \ x.s.tf : e.k <= x.s.range

\* "once the node is full nothing farther than its farthest held record is fetched"
FullLimit(x) == x.r.st.far # 0 =>
                  /\ \A i \in x.r.issued : i.k <= x.r.st.far
                  /\ (x.ev = "SetFarthest" => \A e \in x.r.st.og \cup x.r.st.tf : e.k <= x.r.st.far)

\* "never runs two fetches for the same record version at once"
NoDuplicateInFlight(x) ==
    /\ \A i \in x.r.issued : KT(i) \notin KTs(Stay(x))
    /\ \A a, b \in x.r.st.og : KT(a) = KT(b) => a = b
    /\ x.r.issued \subseteq x.r.st.og
    \* a fetch never silently disappears (e.g. by being replaced with a second fetch of the same version)
    /\ (x.s.og \ x.r.st.og) \subseteq MayLeave(x)

\* "never lets batch scheduling exceed the parallel-fetch limit"
BatchCap(x) == /\ BatchIssued(x) # {} => Cardinality(x.r.st.og) <= MaxPar
               /\ LET n == Cardinality(Stay(x)) + (IF IsFast(x) THEN 1 ELSE 0)
                  IN Cardinality(x.r.st.og) <= (IF n > MaxPar THEN n ELSE MaxPar)

\* "schedules closest records first"
Eligible(s) == {e \in s.tf : KT(e) \notin KTs(s.og)}
ClosestFirst(x) == \A i \in BatchIssued(x), e \in Eligible(x.r.st) : i.k <= e.k

\* "every fetch leaves the in-flight set when the record arrives, is reported complete, or times out"
LeavesInFlight(x) ==
    /\ x.ev = "NotifyPut"   => \A e \in x.r.st.og : e.k # x.k \/ e \in x.r.issued
    \* a record version that turned up in the store by another way (the fetched copy was found "already stored",
    \* so no completion is notified) has arrived as well: the fetch is gone once the fetcher next sees the held set
    /\ x.ev = "AddKeys"     => \A e \in x.r.st.og : x.held[e.k] # e.t
    /\ x.ev = "NotifyEarly" => \A e \in x.r.st.og : ~(e.k = x.k /\ e.t = x.t)
    \* (a timed-out fetch may be started afresh in the same step; then it is in `issued`)
    /\ \A e \in TimedOut(x) : e \notin x.r.st.og \/ e \in x.r.issued

\* "a timed-out holder being reported and its queued entries dropped"
TimeoutReported(x) ==
    x.ev \in Scheduling =>
       /\ {e.h : e \in TimedOutMust(x)} \subseteq x.r.failed
       /\ x.r.failed \subseteq {e.h : e \in TimedOut(x)}
       /\ \A e \in x.r.st.tf : e.h \notin x.r.failed

Clauses == {"C08_OnlyMissing", "C08_BatchInRange", "C08_FullLimit", "C08_NoDuplicateInFlight",
            "C08_BatchCap", "C08_ClosestFirst", "C08_LeavesInFlight", "C08_TimeoutReported"}
Holds(c, x) == CASE c = "C08_OnlyMissing"         -> OnlyMissing(x)
                 [] c = "C08_BatchInRange"        -> BatchInRange(x)
                 [] c = "C08_FullLimit"           -> FullLimit(x)
                 [] c = "C08_NoDuplicateInFlight" -> NoDuplicateInFlight(x)
                 [] c = "C08_BatchCap"            -> BatchCap(x)
                 [] c = "C08_ClosestFirst"        -> ClosestFirst(x)
                 [] c = "C08_LeavesInFlight"      -> LeavesInFlight(x)
                 [] c = "C08_TimeoutReported"     -> TimeoutReported(x)
FalsifiedBy(x) == {c \in Clauses : ~Holds(c, x)}

\* the results the model allows for a step (used as the drift predicate on implementation traces)
ModelResults(x) ==
    CASE x.ev = "AddKeys"       -> AddKeys(x.s, x.h, x.list, x.held)
      [] x.ev = "NextKeys"      -> NextKeys(x.s)
      [] x.ev = "NotifyPut"     -> NotifyPut(x.s, x.k, x.t)
      [] x.ev = "NotifyEarly"   -> NotifyEarly(x.s, x.k, x.t)
      [] x.ev = "SetRange"      -> SetRange(x.s, x.rg)
      [] x.ev = "SetFarthest"   -> SetFarthest(x.s, x.k)
      [] x.ev = "ExpireFetch"   -> ExpireFetch(x.s, x.e)
      [] x.ev = "ExpirePending" -> ExpirePending(x.s, x.e)
=============================================================================
