---------------------------- MODULE NodeLinkTrace ----------------------------
(* Trace specification for the store / fetcher link: advertisements handled by a REAL node whose store *)
(* was filled to its shipped capacity, before and after it refused a farther record, and after its     *)
(* responsible range was set.                                                                          *)
EXTENDS NodeLink, TLC, Json, IOUtils, SequencesExt
Rec == ndJsonDeserialize(IOEnv.TRACE)
N == Len(Rec)
VARIABLES l, viol
tvars == <<l, viol, vars>>
StepOf(e) == [limited |-> e.limited, rangeSet |-> e.rangeSet,
              keys |-> {[id |-> e.keys[i].id, beyond |-> e.keys[i].beyond, inRange |-> e.keys[i].inRange, held |-> e.keys[i].held] : i \in 1..Len(e.keys)},
              taken |-> {e.taken[i] : i \in 1..Len(e.taken)}]
When(c, name) == IF c THEN {name} ELSE {}
Falsified(e) ==
    IF e.ev = "Advert" THEN LET x == StepOf(e) IN
            When(~C08_FullLimit_Node(x), "C08_FullLimit") \cup When(~C08_OnlyMissing_Node(x), "C08_OnlyMissing") \cup When(~C08_BatchInRange_Node(x), "C08_BatchInRange")
       \cup When(~C08_Progress_Node(x), "C08_Progress")
    \* a farther record offered to the full store: refused, and afterwards the fetcher neither runs nor queues
    \* anything farther than the farthest held record
    ELSE IF e.ev = "PutFar" THEN When(e.res # "MaxRecords" \/ e.beyondLeft # 0, "C08_FullLimit")
    ELSE IF e.ev \in {"Filled", "SetRange", "PutNear"} THEN {}
    ELSE {"Malformed"}
TInit == l = 1 /\ viol = {} /\ Init
TNext == l <= N /\ l' = l + 1 /\ UNCHANGED vars /\ viol' = viol \cup {[clause |-> c, line |-> l] : c \in Falsified(Rec[l])}
TSpec == TInit /\ [][TNext]_tvars
Report == l = N + 1 => ndJsonSerialize(IOEnv.OUT, << [lines |-> N, violations |-> SetToSeq(viol)] >>)
=============================================================================
