SPECIFICATION Spec
CONSTANTS
  NK = 4
  Far = 2
INVARIANT NoClauseFalsified
CHECK_DEADLOCK FALSE
