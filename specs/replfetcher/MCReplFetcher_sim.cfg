SPECIFICATION Spec
CONSTANTS
  NK = 4
  NT = 2
  NH = 3
  MaxPar = 2
  MaxList = 3
  Record = TRUE
  Depth = 14
INVARIANTS NoClauseFalsified Emit
CONSTRAINT Bounded
CHECK_DEADLOCK FALSE
