-------------------------- MODULE ReplFetcherTrace --------------------------
(***************************************************************************)
(* Trace specification for C08.  Each line is one call on the REAL         *)
(* ReplicationFetcher (through the cfg-guarded wrapper) with its arguments,*)
(* the returned (holder,key) list, the FailedToFetchHolders events it      *)
(* caused, and the projected queue / in-flight sets afterwards (ids: keys  *)
(* by distance rank computed by the driver's own XOR metric).              *)
(*                                                                         *)
(* Ghost state kept by this spec: which deadlines have been aged (the      *)
(* driver ages them one entry at a time through the hook) and the held map *)
(* last told to the fetcher.  Verdict: clauses of ReplFetcher.tla false on *)
(* a step.  Drift: the step is not one of the model's results.             *)
(***************************************************************************)
EXTENDS ReplFetcher, TLC, Json, IOUtils, SequencesExt

Rec == ndJsonDeserialize(IOEnv.TRACE)
N == Len(Rec)

VARIABLES l, cur, kh, viol, drift, stats
vars == <<l, cur, kh, viol, drift, stats>>

NoHeld == [k \in Key |-> 0]

Ent(j) == [k |-> j.k, t |-> j.t, h |-> j.h]
Ents(seq) == {Ent(seq[i]) : i \in 1..Len(seq)}
HeldOf(seq) == [k \in Key |-> IF k <= Len(seq) THEN seq[k] ELSE 0]
ListOf(seq) == {<<seq[i][1], seq[i][2]>> : i \in 1..Len(seq)}

Known == {"Reset", "RoundsDone", "AddKeys", "NextKeys", "NotifyPut", "NotifyEarly", "SetRange", "SetFarthest",
          "ExpireFetch", "ExpirePending"}

\* the step record of ReplFetcher.tla for line e (result filled from the observation)
ObsOg(e) == Ents(e.og)
ObsTf(e) == Ents(e.tf)
\* entries issued by this call: what is in flight afterwards and was not staying in flight
StepOf(e) ==
    LET base == [ev |-> e.ev, s |-> cur, r |-> 0, kh |-> 0,
                 h |-> e.h, list |-> ListOf(e.list), held |-> HeldOf(e.held), k |-> e.k, t |-> e.t,
                 rg |-> e.rg, e |-> IF e.ev \in {"ExpireFetch", "ExpirePending"} THEN Ent(e.e) ELSE 0]
        newkh == IF e.ev = "AddKeys" THEN HeldOf(e.held)
                 ELSE IF e.ev = "NotifyPut" THEN [kh EXCEPT ![e.k] = e.t] ELSE kh
        \* what was started by this call, reconstructed from the in-flight sets and the returned list:
        \* certainly new = in flight now and either not before or obliged to leave; a fetch that MAY
        \* leave in this step and is in flight afterwards was restarted iff the returned list has one
        \* more (holder,key) pair than the certainly-new fetches explain
        new == (ObsOg(e) \ cur.og) \cup (MustLeave(base) \cap ObsOg(e))
        amb == (cur.og \cap (MayLeave(base) \ MustLeave(base))) \cap ObsOg(e)
        CntRet(h, k) == Cardinality({i \in 1..Len(e.ret) : e.ret[i][1] = h /\ e.ret[i][2] = k})
        CntNew(h, k) == Cardinality({y \in new : y.h = h /\ y.k = k})
        iss == new \cup {a \in amb : CntRet(a.h, a.k) > CntNew(a.h, a.k)}
        \* deadline ghosts: follow the model when the observation is one of its results
        matches == {m \in ModelResults(base) :
                       /\ m.st.tf = ObsTf(e) /\ m.st.og = ObsOg(e)
                       /\ m.st.range = e.range /\ m.st.far = e.far
                       /\ m.failed = ToSet(e.failed)}
        ogx == IF matches # {} THEN (CHOOSE m \in matches : TRUE).st.ogx
               ELSE {x \in (cur.ogx \cup (IF e.ev = "ExpireFetch" THEN {Ent(e.e)} ELSE {})) : x \in ObsOg(e) /\ x \notin iss}
        tfx == IF matches # {} THEN (CHOOSE m \in matches : TRUE).st.tfx
               ELSE {x \in (cur.tfx \cup (IF e.ev = "ExpirePending" THEN {Ent(e.e)} ELSE {})) : x \in ObsTf(e)}
        \* the responsible range is an INPUT of the fetcher: the clauses of the following steps read the range it was last TOLD,
        \* not the one it says it has (a fetcher that does not take up a range it is handed would agree with itself);
        \* what it says it has still goes into the conformance comparison above (drift)
        toldRange == IF e.ev = "SetRange" THEN e.rg ELSE cur.range
        st2 == [tf |-> ObsTf(e), tfx |-> tfx, og |-> ObsOg(e), ogx |-> ogx, range |-> toldRange, far |-> e.far]
    IN [x |-> [base EXCEPT !.r = [st |-> st2, issued |-> iss, failed |-> ToSet(e.failed)], !.kh = newkh],
        newkh |-> newkh, conform |-> matches # {}]

\* the returned (holder,key) list must be exactly the fetches that were started
RetConsistent(e, x) ==
    LET CntRet(h, k) == Cardinality({i \in 1..Len(e.ret) : e.ret[i][1] = h /\ e.ret[i][2] = k})
        CntIss(h, k) == Cardinality({y \in x.r.issued : y.h = h /\ y.k = k})
    IN /\ \A i \in 1..Len(e.ret) : CntRet(e.ret[i][1], e.ret[i][2]) = CntIss(e.ret[i][1], e.ret[i][2])
       /\ \A y \in x.r.issued : CntRet(y.h, y.k) = CntIss(y.h, y.k)

Falsified(e, x) == FalsifiedBy(x) \cup (IF RetConsistent(e, x) THEN {} ELSE {"C08_NoDuplicateInFlight"})

Init == l = 1 /\ cur = Init0 /\ kh = NoHeld /\ viol = {} /\ drift = {} /\ stats = [steps |-> 0, issued |-> 0, failed |-> 0]
Next ==
    /\ l <= N
    /\ l' = l + 1
    /\ LET e == Rec[l] IN
       IF e.ev \notin Known THEN
            /\ viol' = viol \cup {[clause |-> "Malformed", line |-> l]}
            /\ UNCHANGED <<cur, kh, drift, stats>>
       ELSE IF e.ev = "RoundsDone" THEN
            \* bounded progress on the code: after the stated number of re-advertisement rounds by a
            \* responsive holder, with every started fetch completing, no wanted key is still missing
            /\ viol' = viol \cup (IF Len(e.missing) = 0 THEN {} ELSE {[clause |-> "C08_Progress", line |-> l]})
            /\ UNCHANGED <<cur, kh, drift, stats>>
       ELSE IF e.ev = "Reset" THEN
            /\ cur' = Init0 /\ kh' = NoHeld /\ UNCHANGED <<viol, drift, stats>>
       ELSE LET so == StepOf(e) IN
            /\ cur' = so.x.r.st
            /\ kh' = so.newkh
            /\ viol' = viol \cup {[clause |-> c, line |-> l] : c \in Falsified(e, so.x)}
            /\ drift' = IF so.conform THEN drift ELSE drift \cup {l}
            /\ stats' = [steps |-> stats.steps + 1, issued |-> stats.issued + Cardinality(so.x.r.issued),
                         failed |-> stats.failed + Cardinality(so.x.r.failed)]
Spec == Init /\ [][Next]_vars

Report == l = N + 1 =>
          ndJsonSerialize(IOEnv.OUT, << [lines |-> N, violations |-> SetToSeq(viol), drift |-> SetToSeq(drift),
                                         stats |-> stats] >>)
=============================================================================
