------------------------------- MODULE NodeLink -------------------------------
(***************************************************************************)
(* The link between a node's record store and its replication fetcher      *)
(* (cmd.rs, PutLocalRecord handler), needed by two clauses of C08:         *)
(*   "once the node is full nothing farther than its farthest held record  *)
(*    is fetched"  -- the store refuses a farther record with MaxRecords,  *)
(*    the handler hands the store's farthest record to the fetcher;        *)
(*   "records taken from periodic multi-record advertisements must also    *)
(*    lie within its responsible distance" -- the handler copies the       *)
(*    store's responsible range into the fetcher after every local put.    *)
(* Keys are distance ranks; `far` is the rank of the farthest held record, *)
(* `range` a rank bound (0 = unset).                                       *)
(***************************************************************************)
EXTENDS Naturals, FiniteSets, Sequences

CONSTANTS NK, Far          \* candidate keys 1..NK (not held); the farthest held record ranks at Far
Key == 1..NK

VARIABLES full, storeRange, fetchFar, fetchRange, fetched, bad
vars == <<full, storeRange, fetchFar, fetchRange, fetched, bad>>

Init == full = FALSE /\ storeRange = 0 /\ fetchFar = 0 /\ fetchRange = 0 /\ fetched = {} /\ bad = {}

\* network discovery sets the store's responsible range
SetStoreRange(r) == storeRange' = r /\ UNCHANGED <<full, fetchFar, fetchRange, fetched, bad>>
\* a local put of key k at a full store: refused iff farther than the farthest held; either way the
\* handler copies the store's range into the fetcher
PutLocal(k) == /\ full' = TRUE
               /\ fetchFar' = IF k > Far THEN Far ELSE fetchFar
               /\ fetchRange' = storeRange
               /\ UNCHANGED <<storeRange, fetched, bad>>
\* an advertisement of the key set L from a close peer (nothing of L is held)
Wanted(L) == {k \in L : (fetchFar = 0 \/ k <= fetchFar) /\ (Cardinality(L) = 1 \/ fetchRange = 0 \/ k <= fetchRange)}
Advert(L) == /\ fetched' = fetched \cup Wanted(L)
             /\ bad' = (IF fetchFar # 0 /\ \E k \in Wanted(L) : k > Far THEN {"C08_FullLimit"} ELSE {})
                  \cup (IF fetchRange # 0 /\ Cardinality(L) > 1 /\ \E k \in Wanted(L) : k > fetchRange THEN {"C08_BatchInRange"} ELSE {})
             /\ UNCHANGED <<full, storeRange, fetchFar, fetchRange>>
Next == \/ \E r \in Key : SetStoreRange(r)
        \/ \E k \in Key : PutLocal(k)
        \/ \E L \in SUBSET Key : L # {} /\ Advert(L)
Spec == Init /\ [][Next]_vars
NoClauseFalsified == bad = {}

\* ---- clauses on an observed advertisement step
\*   x: [limited (a farther record has been refused since start), rangeSet (a local put happened after the
\*       store's range was set), keys (set of [id, beyond (farther than the farthest held), inRange, held]),
\*       taken (ids started or queued by this advertisement)]
\* an advertisement counts as multi-record when more than one of its records passes the fullness limit
\* and is not held (the fetcher's fresh-replication fast path looks at what is left after those filters)
Passing(x) == {k \in x.keys : ~k.held /\ ~(x.limited /\ k.beyond)}
C08_OnlyMissing_Node(x) == \A k \in x.keys : k.id \in x.taken => ~k.held
Multi(x) == Cardinality(Passing(x)) > 1
C08_FullLimit_Node(x) == x.limited => \A k \in x.keys : k.id \in x.taken => ~k.beyond
C08_BatchInRange_Node(x) == (x.rangeSet /\ Multi(x)) => \A k \in x.keys : k.id \in x.taken => k.inRange
\* what is within both limits is taken (the node does not stop replicating)
C08_Progress_Node(x) == \A k \in Passing(x) : (~x.rangeSet \/ k.inRange \/ ~Multi(x)) => k.id \in x.taken
=============================================================================
