SPECIFICATION Spec
CONSTANTS
  NK = 3
  NT = 2
  NH = 2
  MaxPar = 1
PROPERTY C08_Progress
CHECK_DEADLOCK FALSE
