SPECIFICATION Spec
CONSTANTS
  MaxLen = 6
  Emit = TRUE
INVARIANT NoClauseFalsified
INVARIANT Scn
CHECK_DEADLOCK FALSE
