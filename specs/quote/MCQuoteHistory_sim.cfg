SPECIFICATION Spec
CONSTANTS
  MaxLen = 6
  Wide = FALSE
  Emit = TRUE
INVARIANT NoClauseFalsified
INVARIANT BatchIsSequence
INVARIANT Scn
CHECK_DEADLOCK FALSE
