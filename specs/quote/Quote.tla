-------------------------------- MODULE Quote --------------------------------
(***************************************************************************)
(* Executable specification of payment-quote verification (property C13)   *)
(* over an IDEAL signature scheme.                                         *)
(*                                                                         *)
(* A quote is a record                                                     *)
(*    [content, ts, m, rewards, key, sig]                                  *)
(* content  : id of the content address                                    *)
(* ts       : timestamp in whole seconds (the granularity of the signed    *)
(*            bytes, interpretation decision I4)                           *)
(* m        : the six quoting-metrics fields <<close_records_stored,       *)
(*            max_records, received_payment_count, live_time,              *)
(*            network_density, network_size>> as value ids                 *)
(* rewards  : id of the rewards address                                    *)
(* key      : the identity whose public key the quote carries              *)
(*            ("bad" = bytes that are no public key)                       *)
(* sig      : [signer, msg] -- an ideal signature IS the pair (who made    *)
(*            it, over which message); forged / garbled bytes are          *)
(*            [signer |-> "none", msg |-> <<>>]                            *)
(*                                                                         *)
(* Written from the statement of C13, not from data_payments.rs.           *)
(***************************************************************************)
EXTENDS Integers, Sequences, FiniteSets

Identities == {"A", "B", "C"}          \* node identities (peer ids); "none" = undecodable identity bytes
NoSig == [signer |-> "none", msg |-> <<>>]

\* exactly the fields the statement lists: content address, timestamp, quoting metrics, rewards address
Signed(q) == <<q.content, q.ts, q.m, q.rewards>>
Sign(p, msg) == [signer |-> p, msg |-> msg]

\* "A quote verifies for a claimed node only if it carries that node's public key and a signature by it over
\*  exactly the quote's content address, timestamp, quoting metrics and rewards address"
Verifies(q, claimed) ==
    /\ claimed \in Identities
    /\ q.key = claimed
    /\ q.sig.signer = q.key
    /\ q.sig.msg = Signed(q)

\* a proof of payment is a sequence of [claimed, q]; "verifies for a node only if that node is a payee and
\* every quote in it verifies for its claimed payee"
Payees(p) == {p[i].claimed : i \in DOMAIN p} \cap Identities
ProofVerifies(p, me) ==
    /\ me \in Payees(p)
    /\ \A i \in DOMAIN p : Verifies(p[i].q, p[i].claimed)

\* "expired exactly when it is older than the validity window or dated in the future"  (whole seconds)
Window == 3600
Expired(ts, now) == now - ts > Window \/ ts > now

\* "a later quote from the same node that reports less uptime or fewer received payments than an earlier one"
\* h = [ts, live, rpc]
HistInconsistent(old, new) == new.live < old.live \/ new.rpc < old.rpc

\* what the implementation documents in addition (not in the statement, used only as drift predicate):
\* uptime may not grow faster than the wall clock plus a margin
LiveTimeMargin == 10
ImplFlagged(old, new) == HistInconsistent(old, new) \/ new.live - old.live > (new.ts - old.ts) + LiveTimeMargin

\* an ideal hash is injective on (signed fields, key bytes, signature bytes)
HashInput(q) == <<Signed(q), q.key, q.sig>>
\* the same for observed quotes, where the driver numbers the distinct key / signature byte strings it has
\* produced (kid, sid): garbled keys and signatures are all "bad" / "none" as identities but differ as bytes
HashInputObs(q) == <<Signed(q), q.kid, q.sid>>

(***************************************************************************)
(* The clauses of C13 as predicates over one observed call of the code.    *)
(***************************************************************************)
\* check_is_signed_by_claimed_peer(q, claimed) returned res
C13_Bound(q, claimed, res) == res => Verifies(q, claimed)
\* the converse (an intact quote is accepted) is not in the statement; kept as a drift predicate
BoundComplete(q, claimed, res) == Verifies(q, claimed) => res

\* ProofOfPayment::verify_for(me) returned res
C13_ProofVerifies(p, me, res) == res => ProofVerifies(p, me)
ProofComplete(p, me, res) == ProofVerifies(p, me) => res

\* has_expired() returned res for a quote dated d seconds after the sampled now
C13_Expiry(d, res) == res <=> Expired(d, 0)

\* ProofOfPayment::has_expired() (the proof-level function a node calls before accepting a payment) returned res for
\* a proof whose quotes are dated ds[i] seconds after the sampled now: a proof is reported expired exactly when one
\* of the quotes it carries is expired, wherever in the proof that quote stands
C13_ProofExpiry(ds, res) == res <=> \E i \in DOMAIN ds : Expired(ds[i], 0)

\* the same edges at millisecond resolution: ms = date of the quote minus now.  Judged only for whole-second
\* offsets (I4: sub-second parts are below the granularity of the statement) whose verdict cannot change while
\* the call runs
ExpiredMs(ms) == -ms > Window * 1000 \/ ms > 0
C13_ExpiryFine(ms, res) == res <=> ExpiredMs(ms)

\* historical_verify between two quotes of the same node with different timestamps returned ok (ok = not flagged)
Older(a, b) == IF a.ts < b.ts THEN a ELSE b
Newer(a, b) == IF a.ts < b.ts THEN b ELSE a
C13_History(samePeer, a, b, ok) ==
    (samePeer /\ a.ts # b.ts /\ HistInconsistent(Older(a, b), Newer(a, b))) => ~ok
HistoryAsImpl(a, b, ok) == a.ts # b.ts => (ok <=> ~ImplFlagged(Older(a, b), Newer(a, b)))

\* hash(q1) = hash(q2) was observed as heq; h1, h2 are the hash inputs of the two quotes
C13_HashBinding(h1, h2, heq) == heq <=> (h1 = h2)
=============================================================================
