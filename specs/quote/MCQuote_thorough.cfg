SPECIFICATION Spec
CONSTANTS
  MetricMode = "all"
  MaxProof = 4
INVARIANTS SpecHonest SpecBinding SpecProof SpecExpiry SpecHistory SpecProofExpiry SpecFine
CHECK_DEADLOCK FALSE
