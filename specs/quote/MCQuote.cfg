SPECIFICATION Spec
CONSTANTS
  MetricMode = "single"
  MaxProof = 3
INVARIANTS SpecHonest SpecBinding SpecProof SpecExpiry SpecHistory SpecProofExpiry SpecFine
CHECK_DEADLOCK FALSE
