--------------------------- MODULE MCQuoteHistory ---------------------------
(* Bounded model of the node-side quote history: every sequence of up to MaxLen quotes of two peers over a *)
(* small table of timestamps / uptimes / payment counts. Checks the clauses on the model and prints every  *)
(* maximal sequence as a scenario for replay on a real node.                                               *)
EXTENDS QuoteHistory, TLC, Json
CONSTANTS MaxLen, Emit
Peers == {"A", "B"}
TsVals == {100, 120, 140}            \* seconds (relative); 20 s apart: the uptime margin is 10 s
LiveVals == {50, 70, 90, 200}
RpcVals == {0, 1, 2}
VARIABLES st, hist, bad
vars == <<st, hist, bad>>
Init == st = HInit(Peers) /\ hist = <<>> /\ bad = {}
Step(p, q) ==
    LET s2 == VerifyQuote(st, p, q) IN
    /\ st' = s2
    /\ hist' = Append(hist, [p |-> p, q |-> q])
    /\ bad' = (IF C13_History_Node(st.kept[p], q, s2.issue[p]) THEN {} ELSE {"C13_History_Node"})
              \cup (IF C13_HistoryKeeps(st.kept[p], q, s2.kept[p]) THEN {} ELSE {"C13_HistoryKeeps"})
Next == /\ Len(hist) < MaxLen
        /\ \E p \in Peers, t \in TsVals, l \in LiveVals, r \in RpcVals : Step(p, [ts |-> t, live |-> l, rpc |-> r])
Spec == Init /\ [][Next]_vars
NoClauseFalsified == bad = {}
\* the retained quote of a peer is consistent with ... itself being the newest unflagged one: once an issue is
\* on record it stays
IssueSticky == [][\A p \in Peers : st.issue[p] => st'.issue[p]]_vars
Scn == (Emit /\ Len(hist) = MaxLen) => PrintT(<<"SCN", ToJson(hist)>>)
=============================================================================
