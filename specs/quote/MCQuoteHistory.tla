--------------------------- MODULE MCQuoteHistory ---------------------------
(* Bounded model of the node-side quote history: every sequence of up to MaxLen quotes of two peers over a *)
(* small table of timestamps / uptimes / payment counts. Checks the clauses on the model and prints every  *)
(* maximal sequence as a scenario for replay on a real node.                                               *)
(* Wide = TRUE (simulation only): a third peer "C" that the node comes to consider bad at a step chosen at *)
(* the start (its further quotes are skipped), and every step carries a flag j = "handed to the node in    *)
(* the same QuoteVerification command as the step before" -- the model handles a batch entry by entry, so  *)
(* j changes nothing in the model; it makes the driver group the real commands into batches of up to 4.    *)
EXTENDS QuoteHistory, TLC, Json
CONSTANTS MaxLen, Emit, Wide
Peers == IF Wide THEN {"A", "B", "C"} ELSE {"A", "B"}
TsVals == {100, 120, 140}            \* seconds (relative); 20 s apart: the uptime margin is 10 s
LiveVals == {50, 70, 90, 200}
RpcVals == {0, 1, 2}
Joins == IF Wide THEN BOOLEAN ELSE {FALSE}
VARIABLES st, hist, bad, shun, markAt
vars == <<st, hist, bad, shun, markAt>>
Init == /\ st = HInit(Peers) /\ hist = <<>> /\ bad = {} /\ shun = {}
        /\ markAt \in (IF Wide THEN 0..(MaxLen - 1) ELSE {0})     \* 0: the node never comes to consider C bad
Step(p, q, j) ==
    LET s2 == HandleEntry(st, p \in shun, p, q) IN
    /\ st' = s2
    /\ hist' = Append(hist, [p |-> p, q |-> q, j |-> j, mark |-> FALSE])
    /\ bad' = (IF C13_History_Node(st.kept[p], q, s2.issue[p]) THEN {} ELSE {"C13_History_Node"})
              \cup (IF C13_HistoryKeeps(st.kept[p], q, s2.kept[p]) THEN {} ELSE {"C13_HistoryKeeps"})
    /\ UNCHANGED <<shun, markAt>>
\* the node comes to consider p bad (three issues on record)
Mark(p) ==
    /\ st' = [st EXCEPT !.issue[p] = TRUE]
    /\ shun' = shun \cup {p}
    /\ hist' = Append(hist, [p |-> p, q |-> NoQuote, j |-> FALSE, mark |-> TRUE])
    /\ bad' = {}
    /\ UNCHANGED markAt
Next == /\ Len(hist) < MaxLen
        /\ IF Len(hist) + 1 = markAt THEN Mark("C")
           ELSE \E p \in Peers, t \in TsVals, l \in LiveVals, r \in RpcVals, j \in Joins : Step(p, [ts |-> t, live |-> l, rpc |-> r], j)
Spec == Init /\ [][Next]_vars
NoClauseFalsified == bad = {}
\* the retained quote of a peer is consistent with ... itself being the newest unflagged one: once an issue is
\* on record it stays
IssueSticky == [][\A p \in Peers : st.issue[p] => st'.issue[p]]_vars
\* a peer considered bad keeps what was retained for it
ShunnedFrozen == [][\A p \in shun : st'.kept[p] = st.kept[p]]_vars
\* handling a sequence entry by entry and handling it as one batch is the same thing in the model
BatchIsSequence ==
    LET ents == SelectSeq(hist, LAMBDA h : ~h.mark)
        firstMark == IF \E i \in DOMAIN hist : hist[i].mark THEN CHOOSE i \in DOMAIN hist : hist[i].mark ELSE Len(hist) + 1 IN
    \* (only checked for histories without a mark inside: bad0 is constant then)
    firstMark > Len(hist) => HandleBatch(HInit(Peers), [i \in DOMAIN ents |-> [p |-> ents[i].p, q |-> ents[i].q, bad0 |-> FALSE]]) = st
Scn == (Emit /\ Len(hist) = MaxLen) => PrintT(<<"SCN", ToJson(hist)>>)
=============================================================================
