------------------------------- MODULE MCQuote -------------------------------
(***************************************************************************)
(* Bounded-exhaustive enumeration for C13.                                 *)
(*  - every subset of altered fields of an honestly signed quote (content, *)
(*    timestamp +/- 1 s, each quoting-metrics field, rewards address)      *)
(*    x carried key (signer's / another node's / no key at all)            *)
(*    x signature (kept / garbled / re-signed by the signer over the       *)
(*      altered fields / signed by the other node over the altered fields) *)
(*    x claimed identity (signer / the other node / a third node);         *)
(*  - every proof of payment of <= MaxProof entries over seven entry       *)
(*    kinds, verified for each of the three identities;                    *)
(*  - timestamps on both sides of (and >= 2 s away from) the two expiry    *)
(*    edges;                                                               *)
(*  - every proof of <= 3 (4) quotes over dates inside / before / after    *)
(*    the window for the proof-level expiry function, and the two edges at *)
(*    one second's distance in milliseconds;                               *)
(*  - pairs of quotes: uptime lower/equal/higher/much higher x payment     *)
(*    count lower/equal/higher x same/different node x which of the two is *)
(*    the receiver x time gap.                                             *)
(* TLC checks sanity laws of the specification on every case and writes    *)
(* the case list (with the specification's expected booleans) replayed by  *)
(* the driver into the real code.                                          *)
(***************************************************************************)
EXTENDS Quote, TLC, Json, IOUtils, SequencesExt

CONSTANTS MetricMode,        \* "single": at most one metrics field altered per case; "all": every subset
          MaxProof

\* timestamps relative to now, in seconds: both sides of the edges now - 3600 and now, never closer than 2 s
\* on the side towards which the passing of time moves them
Deltas == IF MetricMode = "all"
          THEN {-100000, -7200, -3700, -3610, -3603, -3602, -3598, -3597, -3590, -1800, -2, 0, 3, 10, 60, 3600, 86400}
          ELSE {-3700, -3602, -3598, -1800, 0, 60, 3600}
\* time between the two quotes of a history pair
Gaps == IF MetricMode = "all" THEN {2, 30, 100, 900} ELSE {2, 100}

\* proof-level expiry (ProofOfPayment::has_expired): every proof of <= MaxPE quotes over dates on both sides of both
\* edges, so that the expired quote stands first / in the middle / last / nowhere / more than once
PDeltas == IF MetricMode = "all" THEN {-100000, -3602, -3598, -1800, 0, 3} ELSE {-3700, -1800, 60}
MaxPE == IF MetricMode = "all" THEN 4 ELSE 3
PExpShapes == UNION {[1..n -> PDeltas] : n \in 0..MaxPE}
\* the edges at one second's distance, millisecond offsets from a now taken with nanoseconds
FineMs == {-3601000, -3599000, -1000, 2000}

Metrics == <<"crs", "max", "rpc", "live", "dens", "size">>
MetricSets == IF MetricMode = "all" THEN SUBSET (1..6) ELSE {{}} \cup {{i} : i \in 1..6}

\* the honest base quote of node A
BaseM == <<1, 1, 1, 1, 1, 1>>
Base0 == [content |-> 1, ts |-> 0, m |-> BaseM, rewards |-> 1]
Q0 == [content |-> 1, ts |-> 0, m |-> BaseM, rewards |-> 1, key |-> "A", sig |-> Sign("A", <<1, 0, BaseM, 1>>)]
\* an honest quote of node B
QB == [content |-> 1, ts |-> 0, m |-> BaseM, rewards |-> 1, key |-> "B", sig |-> Sign("B", <<1, 0, BaseM, 1>>)]

Muts == [content : BOOLEAN, tsd : {-1, 0, 1}, ms : MetricSets, rewards : BOOLEAN,
         key : {"A", "B", "bad"}, sigmode : {"keep", "garbage", "byA", "byB"}, claimed : Identities]

Apply(mu) ==
    LET f == [content |-> IF mu.content THEN 2 ELSE 1,
              ts      |-> mu.tsd,
              m       |-> [i \in 1..6 |-> IF i \in mu.ms THEN 2 ELSE 1],
              rewards |-> IF mu.rewards THEN 2 ELSE 1]
        msg == <<f.content, f.ts, f.m, f.rewards>>
    IN [content |-> f.content, ts |-> f.ts, m |-> f.m, rewards |-> f.rewards, key |-> mu.key,
        sig |-> CASE mu.sigmode = "keep"    -> Q0.sig
                  [] mu.sigmode = "garbage" -> NoSig
                  [] mu.sigmode = "byA"     -> Sign("A", msg)
                  [] mu.sigmode = "byB"     -> Sign("B", msg)]

FieldsAltered(mu) == mu.content \/ mu.tsd # 0 \/ mu.ms # {} \/ mu.rewards

\* proof entries
EntryKinds == {"mine", "valid", "invalid", "foreign", "claimme", "mineinvalid", "badid"}
Entry(k) ==
    CASE k = "mine"        -> [claimed |-> "A", q |-> Q0]
      [] k = "valid"       -> [claimed |-> "B", q |-> QB]
      [] k = "invalid"     -> [claimed |-> "B", q |-> [QB EXCEPT !.content = 2]]
      [] k = "foreign"     -> [claimed |-> "C", q |-> QB]
      [] k = "claimme"     -> [claimed |-> "A", q |-> QB]
      [] k = "mineinvalid" -> [claimed |-> "A", q |-> [Q0 EXCEPT !.rewards = 2]]
      [] k = "badid"       -> [claimed |-> "none", q |-> QB]
ProofShapes == UNION {[1..n -> EntryKinds] : n \in 0..MaxProof}
ProofOf(shape) == [i \in DOMAIN shape |-> Entry(shape[i])]

LiveSteps == {"lower", "equal", "higher", "wayhigher"}
CountSteps == {"lower", "equal", "higher"}
Hist == [dl : LiveSteps, dr : CountSteps, same : BOOLEAN, selfnewer : BOOLEAN, gap : Gaps]
\* the earlier quote has live = 1000, rpc = 50, ts = -1000; the later one is gap seconds younger
HOld == [ts |-> -1000, live |-> 1000, rpc |-> 50]
HNew(h) == [ts   |-> -1000 + h.gap,
            live |-> 1000 + (CASE h.dl = "lower" -> -5 [] h.dl = "equal" -> 0 [] h.dl = "higher" -> h.gap \div 2 [] h.dl = "wayhigher" -> h.gap + 100),
            rpc  |-> 50 + (CASE h.dr = "lower" -> -1 [] h.dr = "equal" -> 0 [] h.dr = "higher" -> 3)]

Cases == {[kind |-> "verify", mu |-> mu] : mu \in Muts}
   \cup  {[kind |-> "proof", shape |-> s, me |-> me] : s \in ProofShapes, me \in Identities}
   \cup  {[kind |-> "expiry", d |-> d] : d \in Deltas}
   \cup  {[kind |-> "history", h |-> h] : h \in Hist}
   \cup  {[kind |-> "pexpiry", ds |-> s] : s \in PExpShapes}
   \cup  {[kind |-> "fine", ms |-> x] : x \in FineMs}

VARIABLE c
Init == c \in Cases
Next == UNCHANGED c
Spec == Init /\ [][Next]_c

\* ------------------------------------------------------------ sanity laws of the specification
\* the honest quotes verify for their signer and for nobody else
SpecHonest ==
    /\ Verifies(Q0, "A") /\ ~Verifies(Q0, "B") /\ ~Verifies(Q0, "C")
    /\ Verifies(QB, "B") /\ ~Verifies(QB, "A")
    /\ ~Verifies(Q0, "none")

\* binding: with the signature kept, ANY alteration of a signed field, of the key or of the claimed identity fails;
\* a quote verifies exactly when key = claimed = the party that signed exactly the present fields
SpecBinding == c.kind = "verify" =>
    LET mu == c.mu  q == Apply(mu) IN
    /\ (mu.sigmode = "keep" /\ (FieldsAltered(mu) \/ mu.key # "A" \/ mu.claimed # "A")) => ~Verifies(q, mu.claimed)
    /\ (mu.sigmode = "garbage") => ~Verifies(q, mu.claimed)
    /\ Verifies(q, mu.claimed) <=> \/ (mu.key = "A" /\ mu.claimed = "A" /\ (mu.sigmode = "byA" \/ (mu.sigmode = "keep" /\ ~FieldsAltered(mu))))
                                   \/ (mu.key = "B" /\ mu.claimed = "B" /\ mu.sigmode = "byB")
    /\ C13_Bound(q, mu.claimed, Verifies(q, mu.claimed))
    /\ (HashInput(q) = HashInput(Q0)) <=> (q = Q0)

\* proofs: the verifying node must be a payee, one bad entry spoils the proof, nothing verifies for a non-payee
SpecProof == c.kind = "proof" =>
    LET p == ProofOf(c.shape) IN
    /\ ProofVerifies(p, c.me) => (\E i \in DOMAIN p : p[i].claimed = c.me)
    /\ ProofVerifies(p, c.me) => \A i \in DOMAIN p : c.shape[i] \in {"mine", "valid"}
    /\ (c.shape = <<>>) => ~ProofVerifies(p, c.me)
    /\ (c.me = "C") => ~ProofVerifies(p, c.me)
    /\ ((\A i \in DOMAIN p : c.shape[i] \in {"mine", "valid"}) /\ (\E i \in DOMAIN p : p[i].claimed = c.me)) => ProofVerifies(p, c.me)

\* expiry: exactly the two half-lines outside [now - Window, now]
SpecExpiry == c.kind = "expiry" =>
    /\ Expired(c.d, 0) <=> (c.d < -Window \/ c.d > 0)
    \* the verdict is the same if up to 2 s pass between sampling "now" and the call
    /\ \A s \in {1, 2} : Expired(c.d - s, 0) = Expired(c.d, 0)

\* proof-level expiry: exactly when some quote lies outside the window, whatever its position; stable while <= 2 s pass
SpecProofExpiry == c.kind = "pexpiry" =>
    LET want == \E i \in DOMAIN c.ds : Expired(c.ds[i], 0) IN
    /\ C13_ProofExpiry(c.ds, want)
    /\ want <=> (\E i \in DOMAIN c.ds : c.ds[i] < -Window \/ c.ds[i] > 0)
    /\ (c.ds = <<>>) => ~want
    /\ \A s \in {1, 2} : \A i \in DOMAIN c.ds : Expired(c.ds[i] - s, 0) = Expired(c.ds[i], 0)
\* the fine edges agree with the whole-second rule and are stable for half a second
SpecFine == c.kind = "fine" =>
    /\ ExpiredMs(c.ms) = Expired(c.ms \div 1000, 0)
    /\ ExpiredMs(c.ms - 500) = ExpiredMs(c.ms)

\* history: the flag is required exactly for the "lower" steps; the statement's flag implies the implementation's
SpecHistory == c.kind = "history" =>
    LET n == HNew(c.h) IN
    /\ HistInconsistent(HOld, n) <=> (c.h.dl = "lower" \/ c.h.dr = "lower")
    /\ HistInconsistent(HOld, n) => ImplFlagged(HOld, n)
    /\ ImplFlagged(HOld, n) <=> (c.h.dl \in {"lower", "wayhigher"} \/ c.h.dr = "lower")
    /\ Older(HOld, n) = HOld /\ Newer(n, HOld) = n

\* ------------------------------------------------------------ case list for the driver
MetricNames(ms) == [i \in 1..Cardinality(ms) |-> Metrics[SetToSortSeq(ms, LAMBDA a, b : a < b)[i]]]
CaseOut(x) ==
    IF x.kind = "verify" THEN
        [kind |-> "verify", content |-> x.mu.content, tsd |-> x.mu.tsd, ms |-> MetricNames(x.mu.ms), rewards |-> x.mu.rewards,
         key |-> x.mu.key, sigmode |-> x.mu.sigmode, claimed |-> x.mu.claimed,
         exp |-> Verifies(Apply(x.mu), x.mu.claimed), heq |-> (HashInput(Apply(x.mu)) = HashInput(Q0))]
    ELSE IF x.kind = "proof" THEN
        [kind |-> "proof", shape |-> x.shape, me |-> x.me, exp |-> ProofVerifies(ProofOf(x.shape), x.me)]
    ELSE IF x.kind = "expiry" THEN [kind |-> "expiry", d |-> x.d, exp |-> Expired(x.d, 0)]
    ELSE IF x.kind = "pexpiry" THEN [kind |-> "pexpiry", ds |-> x.ds, exp |-> (\E i \in DOMAIN x.ds : Expired(x.ds[i], 0))]
    ELSE IF x.kind = "fine" THEN [kind |-> "fine", ms |-> x.ms, exp |-> ExpiredMs(x.ms)]
    ELSE [kind |-> "history", dl |-> x.h.dl, dr |-> x.h.dr, same |-> x.h.same, selfnewer |-> x.h.selfnewer, gap |-> x.h.gap,
          old |-> HOld, new |-> HNew(x.h), must |-> (x.h.same /\ HistInconsistent(HOld, HNew(x.h))), impl |-> ImplFlagged(HOld, HNew(x.h))]
ASSUME IF "CASES" \in DOMAIN IOEnv
       THEN ndJsonSerialize(IOEnv.CASES, SetToSeq({CaseOut(x) : x \in Cases}))
       ELSE TRUE
=============================================================================
