------------------------- MODULE QuoteHistoryTrace -------------------------
(* Trace specification: QuoteVerification commands handled by a REAL SwarmDriver; after each one the driver *)
(* logs what the node retains for the peer and whether an issue is on record. The model runs alongside.     *)
EXTENDS QuoteHistory, TLC, Json, IOUtils, SequencesExt
Rec == ndJsonDeserialize(IOEnv.TRACE)
N == Len(Rec)
Peers == {"A", "B", "C"}
VARIABLES l, st, viol, drift
tvars == <<l, st, viol, drift>>
H(x) == [ts |-> x.ts, live |-> x.live, rpc |-> x.rpc]
When(c, name) == IF c THEN {name} ELSE {}
TInit == l = 1 /\ st = HInit(Peers) /\ viol = {} /\ drift = {}
TNext ==
    /\ l <= N /\ l' = l + 1
    /\ LET e == Rec[l] IN
       IF e.ev = "Reset" THEN st' = HInit(Peers) /\ UNCHANGED <<viol, drift>>
       ELSE IF e.ev = "Quote" /\ e.p \in Peers THEN
            LET k == H(e.before) q == H(e.q) k2 == H(e.after)
                m == HandleEntry(st, e.bad0, e.p, q) IN
            /\ st' = m
            /\ viol' = viol \cup {[clause |-> c, line |-> l] :
                          c \in When(~C13_History_Node(k, q, e.issue), "C13_History_Node")
                                \cup When(~C13_HistoryKeeps(k, q, k2), "C13_HistoryKeeps")}
            /\ drift' = drift \cup (IF m.kept[e.p] = k2 /\ m.issue[e.p] = e.issue /\ st.kept[e.p] = k THEN {} ELSE {l})
       \* one QuoteVerification command with several entries: ents[i] = [p, q, bad0]; before / after / issue of an entry
       \* are those of its peer before / after the WHOLE command
       ELSE IF e.ev = "Batch" /\ Len(e.entries) > 0 /\ (\A i \in DOMAIN e.entries : e.entries[i].p \in Peers) THEN
            LET ents == [i \in DOMAIN e.entries |-> [p |-> e.entries[i].p, q |-> H(e.entries[i].q), bad0 |-> e.entries[i].bad0]]
                ps == {ents[i].p : i \in DOMAIN ents}
                At(p) == e.entries[CHOOSE i \in DOMAIN ents : ents[i].p = p]
                start == [kept |-> [p \in Peers |-> IF p \in ps THEN H(At(p).before) ELSE NoQuote], issue |-> [p \in Peers |-> FALSE]]
                j == BatchJudgement(start, ents)
                issueAfter == [p \in Peers |-> IF p \in ps THEN At(p).issue ELSE FALSE]
                m == HandleBatch(st, ents) IN
            /\ st' = m
            /\ viol' = viol \cup {[clause |-> c, line |-> l] :
                          c \in When(~C13_History_Batch(j, issueAfter), "C13_History_Node")
                                \cup When(\E p \in ps : ~C13_HistoryKeeps_Batch(j, p, H(At(p).before), H(At(p).after),
                                                                                  {ents[i].q : i \in {x \in DOMAIN ents : ents[x].p = p}}), "C13_HistoryKeeps")}
            /\ drift' = drift \cup (IF \A p \in ps : m.kept[p] = H(At(p).after) /\ m.issue[p] = At(p).issue /\ st.kept[p] = H(At(p).before) THEN {} ELSE {l})
       \* the node was made to consider the peer bad (three issues reported through the real handler)
       ELSE IF e.ev = "MarkBad" /\ e.p \in Peers THEN
            st' = [st EXCEPT !.issue[e.p] = (e.issues > 0)] /\ UNCHANGED <<viol, drift>>
       \* a quote created and signed by the node itself (ant-node create_quote_for_storecost)
       ELSE IF e.ev = "NodeQuote" THEN
            /\ st' = st
            /\ viol' = viol \cup {[clause |-> c, line |-> l] :
                          c \in When(e.other \/ \E i \in 1..Len(e.altered) : e.altered[i], "C13_Bound_Node")}
            \* not in the statement: the node's own quote verifies for it and carries what was asked for
            /\ drift' = drift \cup (IF e.res = "ok" /\ e.own /\ e.content_ok /\ e.metrics_ok /\ e.rewards_ok /\ e.fresh THEN {} ELSE {l})
       ELSE st' = st /\ viol' = viol \cup {[clause |-> "Malformed", line |-> l]} /\ UNCHANGED drift
TSpec == TInit /\ [][TNext]_tvars
Report == l = N + 1 => ndJsonSerialize(IOEnv.OUT, << [lines |-> N, violations |-> SetToSeq(viol), drift |-> SetToSeq(drift)] >>)
=============================================================================
