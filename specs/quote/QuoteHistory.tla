---------------------------- MODULE QuoteHistory ----------------------------
(***************************************************************************)
(* The node-side use of the history rule of C13 (ant-networking/src/cmd.rs,*)
(* LocalSwarmCmd::QuoteVerification -> verify_peer_quote): a node keeps,   *)
(* per peer, the newest quote it has seen and judges every further quote   *)
(* of that peer against the retained one; an inconsistent quote is         *)
(* recorded as an issue of the peer (BadQuoting) and not retained.         *)
(*                                                                         *)
(* h = [ts, live, rpc] as in Quote.tla (ts in seconds, relative).          *)
(* State: one record  [kept : Peer -> h or NoQuote, issue : Peer -> BOOL]  *)
(* `issue` is "at least one issue recorded": the code records a further    *)
(* issue of the same peer only when the previous one is older than 10 s,   *)
(* so the count itself is not a function of the quotes alone.              *)
(***************************************************************************)
EXTENDS Quote

NoQuote == [ts |-> -1, live |-> -1, rpc |-> -1]
HInit(Peers) == [kept |-> [p \in Peers |-> NoQuote], issue |-> [p \in Peers |-> FALSE]]

\* equal timestamps: neither is "later"; the code then treats the incoming quote as the newer one
OldOf(k, q) == IF k.ts > q.ts THEN q ELSE k
NewOf(k, q) == IF k.ts > q.ts THEN k ELSE q
Flag(k, q) == k # NoQuote /\ ImplFlagged(OldOf(k, q), NewOf(k, q))

\* one quote q claimed by peer p is handed to the history check
VerifyQuote(s, p, q) ==
    LET k == s.kept[p] IN
    IF Flag(k, q) THEN [s EXCEPT !.issue[p] = TRUE]
    ELSE IF k # NoQuote /\ k.ts > q.ts THEN s
    ELSE [s EXCEPT !.kept[p] = q]

(***************************************************************************)
(* Clauses over one observed step: before the step the node retained k for *)
(* the peer, q was handed in, afterwards it retains k2 and issue2 says     *)
(* whether an issue of the peer is on record.                              *)
(***************************************************************************)
\* the statement's rule, applied to the pair the node can compare
C13_History_Node(k, q, issue2) ==
    (k # NoQuote /\ k.ts # q.ts /\ HistInconsistent(OldOf(k, q), NewOf(k, q))) => issue2
\* an inconsistent quote never becomes the reference for later comparisons, and the reference never
\* moves back in time
C13_HistoryKeeps(k, q, k2) ==
    /\ (k # NoQuote /\ k.ts # q.ts /\ HistInconsistent(OldOf(k, q), NewOf(k, q))) => k2 = k
    /\ k2 \in {k, q}
    /\ k # NoQuote => k2.ts >= k.ts
=============================================================================
