---------------------------- MODULE QuoteHistory ----------------------------
(***************************************************************************)
(* The node-side use of the history rule of C13 (ant-networking/src/cmd.rs,*)
(* LocalSwarmCmd::QuoteVerification -> verify_peer_quote): a node keeps,   *)
(* per peer, the newest quote it has seen and judges every further quote   *)
(* of that peer against the retained one; an inconsistent quote is         *)
(* recorded as an issue of the peer (BadQuoting) and not retained.         *)
(*                                                                         *)
(* h = [ts, live, rpc] as in Quote.tla (ts in seconds, relative).          *)
(* State: one record  [kept : Peer -> h or NoQuote, issue : Peer -> BOOL]  *)
(* `issue` is "at least one issue recorded": the code records a further    *)
(* issue of the same peer only when the previous one is older than 10 s,   *)
(* so the count itself is not a function of the quotes alone.              *)
(***************************************************************************)
EXTENDS Quote, SequencesExt

NoQuote == [ts |-> -1, live |-> -1, rpc |-> -1]
HInit(Peers) == [kept |-> [p \in Peers |-> NoQuote], issue |-> [p \in Peers |-> FALSE]]

\* equal timestamps: neither is "later"; the code then treats the incoming quote as the newer one
OldOf(k, q) == IF k.ts > q.ts THEN q ELSE k
NewOf(k, q) == IF k.ts > q.ts THEN k ELSE q
Flag(k, q) == k # NoQuote /\ ImplFlagged(OldOf(k, q), NewOf(k, q))

\* one quote q claimed by peer p is handed to the history check
VerifyQuote(s, p, q) ==
    LET k == s.kept[p] IN
    IF Flag(k, q) THEN [s EXCEPT !.issue[p] = TRUE]
    ELSE IF k # NoQuote /\ k.ts > q.ts THEN s
    ELSE [s EXCEPT !.kept[p] = q]

(***************************************************************************)
(* Clauses over one observed step: before the step the node retained k for *)
(* the peer, q was handed in, afterwards it retains k2 and issue2 says     *)
(* whether an issue of the peer is on record.                              *)
(***************************************************************************)
\* the statement's rule, applied to the pair the node can compare
C13_History_Node(k, q, issue2) ==
    (k # NoQuote /\ k.ts # q.ts /\ HistInconsistent(OldOf(k, q), NewOf(k, q))) => issue2
\* an inconsistent quote never becomes the reference for later comparisons, and the reference never
\* moves back in time
C13_HistoryKeeps(k, q, k2) ==
    /\ (k # NoQuote /\ k.ts # q.ts /\ HistInconsistent(OldOf(k, q), NewOf(k, q))) => k2 = k
    /\ k2 \in {k, q}
    /\ k # NoQuote => k2.ts >= k.ts

(***************************************************************************)
(* One QuoteVerification command carries a BATCH of (peer, quote) entries, *)
(* which the node takes in order; entries of a peer it already considers   *)
(* bad are skipped (nothing further is recorded or retained for it).       *)
(* Every entry of a batch is subject to the statement's rule.  Only the    *)
(* state before and after the whole command is observable, so the          *)
(* reference an entry is compared with is the observed retained quote for  *)
(* the first entry of a peer and, for further entries of the same peer in  *)
(* the same batch, the one that follows from the entries before it         *)
(* (newest consistent quote, as above).                                    *)
(* entries : sequence of [p, q, bad0]   (bad0: the peer was considered bad *)
(*           before the command)                                           *)
(***************************************************************************)
HandleEntry(s, isBad, p, q) == IF isBad THEN s ELSE VerifyQuote(s, p, q)
HandleBatch(s, entries) == FoldLeft(LAMBDA acc, en : HandleEntry(acc, en.bad0, en.p, en.q), s, entries)

\* the statement's rule for one entry against the reference k
MustFlag(k, q) == k # NoQuote /\ k.ts # q.ts /\ HistInconsistent(OldOf(k, q), NewOf(k, q))

\* start: a state whose kept[p] is the retained quote observed before the command.  Result: the peers that must have
\* an issue on record afterwards and the (peer, quote) pairs that must not be retained afterwards
BatchJudgement(start, entries) ==
    FoldLeft(LAMBDA acc, en :
                LET k == acc.s.kept[en.p] IN
                [s      |-> HandleEntry(acc.s, en.bad0, en.p, en.q),
                 must   |-> acc.must \cup (IF MustFlag(k, en.q) THEN {en.p} ELSE {}),
                 nokeep |-> acc.nokeep \cup (IF MustFlag(k, en.q) THEN {<<en.p, en.q>>} ELSE {})],
             [s |-> start, must |-> {}, nokeep |-> {}], entries)

\* every inconsistent entry of the batch is flagged, whatever stands before it in the batch
C13_History_Batch(j, issueAfter) == \A p \in j.must : issueAfter[p]
\* per peer of the batch (k, k2: retained before / after the command, qs: the peer's quotes in the batch): nothing but
\* the old reference or one of the batch's quotes is retained, the reference never moves back, and an entry that had to
\* be flagged is not the reference afterwards
C13_HistoryKeeps_Batch(j, p, k, k2, qs) ==
    /\ k2 \in {k} \cup qs
    /\ k # NoQuote => k2.ts >= k.ts
    /\ k2 # k => <<p, k2>> \notin j.nokeep
=============================================================================
