------------------------------ MODULE QuoteTrace ------------------------------
(***************************************************************************)
(* Trace specification for C13: every line of the trace is one call of the *)
(* real quote verification code of ant-evm with the abstract projection of *)
(* its concrete argument (computed by the driver from the concrete bytes)  *)
(* and the boolean it returned.  The clause operators of Quote.tla are the *)
(* oracle.  Deterministic: one line per step; falsified clauses, drift     *)
(* (implementation stricter / laxer than the specification without         *)
(* breaking the statement) and notes are accumulated and written to        *)
(* IOEnv.OUT in the final state.                                           *)
(***************************************************************************)
EXTENDS Quote, TLC, Json, IOUtils, SequencesExt

Rec == ndJsonDeserialize(IOEnv.TRACE)
N == Len(Rec)

VARIABLES l, viol, drift, notes
vars == <<l, viol, drift, notes>>

Known(e) == e.ev \in {"Verify", "Proof", "Expiry", "ProofExpiry", "ExpiryFine", "History", "HashPair", "HashAlias"}
When(cond, name) == IF cond THEN {name} ELSE {}
IsBool(s) == s \in {"true", "false"}
B(s) == s = "true"
Has(r, f) == f \in DOMAIN r

HOf(x) == [ts |-> x.ts, live |-> x.live, rpc |-> x.rpc]

Falsified(e) ==
    IF ~Known(e) THEN {"Malformed"}
    ELSE IF e.ev = "Verify" THEN
             When(Has(e.exp, "res") /\ (e.exp.res # Verifies(e.q, e.claimed) \/ e.exp.heq # (HashInputObs(e.q) = HashInputObs(e.base))), "Malformed")
        \cup When(~IsBool(e.res) \/ ~C13_Bound(e.q, e.claimed, B(e.res)), "C13_Bound")
        \cup When(~IsBool(e.heq) \/ ~C13_HashBinding(HashInputObs(e.q), HashInputObs(e.base), B(e.heq)), "C13_HashBinding")
    ELSE IF e.ev = "Proof" THEN
             When(Has(e.exp, "res") /\ e.exp.res # ProofVerifies(e.entries, e.me), "Malformed")
        \cup When(~IsBool(e.res) \/ ~C13_ProofVerifies(e.entries, e.me, B(e.res)), "C13_ProofVerifies")
    ELSE IF e.ev = "Expiry" THEN
             When((Has(e.exp, "res") /\ e.exp.res # Expired(e.d, 0)) \/ e.dnow > 2 \/ Expired(e.d, 0) # Expired(e.d - e.dnow, 0), "Malformed")
        \cup When(~IsBool(e.res) \/ ~C13_Expiry(e.d, B(e.res)), "C13_Expiry")
    \* ProofOfPayment::has_expired on a proof whose quotes are dated ds[i] s after the sampled now
    ELSE IF e.ev = "ProofExpiry" THEN
             When((Has(e.exp, "res") /\ e.exp.res # (\E i \in DOMAIN e.ds : Expired(e.ds[i], 0))) \/ e.dnow > 2
                  \/ (\E i \in DOMAIN e.ds : Expired(e.ds[i], 0) # Expired(e.ds[i] - e.dnow, 0)), "Malformed")
        \cup When(~IsBool(e.res) \/ ~C13_ProofExpiry(e.ds, B(e.res)), "C13_ProofExpiry")
    \* has_expired on a quote dated ms milliseconds after a now taken with nanoseconds; the driver voids the case when the
    \* call took so long that the verdict could have changed
    ELSE IF e.ev = "ExpiryFine" THEN
        (IF e.void THEN {}
         ELSE    When((Has(e.exp, "res") /\ e.exp.res # ExpiredMs(e.ms))
                      \/ (e.ms % 1000 = 0 /\ ExpiredMs(e.ms) # ExpiredMs(e.ms - e.elapsed_ms)), "Malformed")
            \cup When(e.ms % 1000 = 0 /\ (~IsBool(e.res) \/ ~C13_ExpiryFine(e.ms, B(e.res))), "C13_Expiry"))
    ELSE IF e.ev = "History" THEN
             When(Has(e.exp, "must") /\ e.exp.must # (e.same /\ e.a.ts # e.b.ts /\ HistInconsistent(Older(HOf(e.a), HOf(e.b)), Newer(HOf(e.a), HOf(e.b)))), "Malformed")
        \cup When(~IsBool(e.res) \/ ~C13_History(e.same, HOf(e.a), HOf(e.b), B(e.res)), "C13_History")
    ELSE IF e.ev = "HashPair" THEN
        When(~IsBool(e.heq) \/ ~C13_HashBinding(HashInputObs(e.q1), HashInputObs(e.q2), B(e.heq)), "C13_HashBinding")
    ELSE {}

\* model / implementation disagreements that keep the statement
Drifted(e) ==
    IF ~Known(e) THEN {}
    ELSE IF e.ev = "Verify" /\ IsBool(e.res) THEN
             When(~BoundComplete(e.q, e.claimed, B(e.res)), "IntactQuoteRejected")
        \cup When(e.pid # (IF e.q.key \in Identities THEN e.q.key ELSE "none"), "PeerIdOfKey")
    ELSE IF e.ev = "Proof" /\ IsBool(e.res) THEN
             When(~ProofComplete(e.entries, e.me, B(e.res)), "IntactProofRejected")
        \cup When({e.payees[i] : i \in DOMAIN e.payees} # Payees(e.entries), "PayeesList")
        \cup When(e.qbp # Cardinality({i \in DOMAIN e.entries : e.entries[i].q.key = e.me}), "QuotesByPeer")
    ELSE IF e.ev = "History" /\ IsBool(e.res) /\ e.a.ts < 0 /\ e.b.ts < 0 THEN
        When(~HistoryAsImpl(HOf(e.a), HOf(e.b), B(e.res)), "HistoryMarginRule")
    ELSE {}

Noted(e) ==
    IF Known(e) /\ e.ev = "HashAlias" /\ e.heq = "true" THEN {"HashKeySignatureBoundaryAlias"}
    ELSE IF Known(e) /\ e.ev = "ExpiryFine" THEN
             (When(e.void, "FineExpiryVoidedSlowCall")
        \cup When(~e.void /\ e.ms % 1000 # 0 /\ IsBool(e.res) /\ B(e.res) # ExpiredMs(e.ms), "ExpiryTruncatesAgeToWholeSeconds"))
    ELSE {}

Init == l = 1 /\ viol = {} /\ drift = {} /\ notes = {}
Next == /\ l <= N
        /\ LET e == Rec[l] IN
           /\ viol' = viol \cup {[clause |-> c, line |-> l] : c \in Falsified(e)}
           /\ drift' = drift \cup {[what |-> d, line |-> l] : d \in Drifted(e)}
           /\ notes' = notes \cup {[note |-> n, line |-> l] : n \in Noted(e)}
        /\ l' = l + 1
Spec == Init /\ [][Next]_vars

Report == l = N + 1 =>
          ndJsonSerialize(IOEnv.OUT, << [lines |-> N, violations |-> SetToSeq(viol), drift |-> SetToSeq(drift), notes |-> SetToSeq(notes)] >>)
=============================================================================
