SPECIFICATION Spec
CONSTANTS
  MaxLen = 3
  Wide = FALSE
  Emit = FALSE
INVARIANTS NoClauseFalsified BatchIsSequence
PROPERTIES IssueSticky ShunnedFrozen
CHECK_DEADLOCK FALSE
