SPECIFICATION Spec
CONSTANTS
  MaxLen = 3
  Emit = FALSE
INVARIANT NoClauseFalsified
PROPERTY IssueSticky
CHECK_DEADLOCK FALSE
