------------------------------- MODULE MCCodec -------------------------------
(***************************************************************************)
(* Bounded-exhaustive enumeration for C12.                                 *)
(*  - every byte string of length <= MaxLen over Alphabet (which contains  *)
(*    the MessagePack markers that matter for the header and both sides of *)
(*    every tag boundary), with the verdict of the acceptance automaton;   *)
(*  - every word over the byte *classes* of the automaton (the driver      *)
(*    concretises each with sampled members of the classes, the class      *)
(*    tables are emitted too so that the driver carries no table of its    *)
(*    own);                                                                *)
(*  - every (kind x value class x proof class) triple to encode/decode;    *)
(*  - every (kind x payload class) pair for the payload decoders;          *)
(*  - every (message type x variant x serde back-end) triple.              *)
(* TLC checks the sanity laws of the specification on every case and       *)
(* writes the case list replayed by the driver into the real code.         *)
(***************************************************************************)
EXTENDS Codec, TLC, Json, IOUtils, SequencesExt

CONSTANTS Alphabet, MaxLen

Words == UNION {[1..n -> Alphabet] : n \in 0..MaxLen}

ClassWords == LenClasses \X (DOMAIN C0) \X (DOMAIN C1) \X (DOMAIN C2)

ValueClasses ==
    \* b255 .. b65536: content lengths either side of the bin8/bin16/bin32 boundaries; mib: 1 MiB and more;
    \* cnt2p32 / cntmax: scratchpad counter 2^32 / 2^64-1 (values only the wire can carry)
    [Chunk                  |-> {"empty", "one", "small", "large", "b255", "b256", "b65535", "b65536", "mib"},
     ChunkWithPayment       |-> {"empty", "one", "small", "large", "b255", "b256", "b65535", "b65536", "mib"},
     Scratchpad             |-> {"fresh", "signed", "signedbig", "extreme", "cnt2p32", "cntmax"},
     ScratchpadWithPayment  |-> {"fresh", "signed", "signedbig", "extreme", "cnt2p32", "cntmax"},
     Transaction            |-> {"vec0", "vec1bare", "vec1rich", "vec3"},
     TransactionWithPayment |-> {"bare", "rich"},
     Register               |-> {"noops", "oneop", "manyops", "anyone"},
     RegisterWithPayment    |-> {"noops", "oneop", "manyops", "anyone"}]
ProofClasses(k) == IF HasProof(k) THEN {"q0", "q1", "q3", "q5"} ELSE {"none"}

EncCases == {[kind |-> "enc", k |-> k, vc |-> vc, pc |-> pc] :
                k \in Kinds, vc \in UNION {ValueClasses[x] : x \in Kinds}, pc \in {"none", "q0", "q1", "q3", "q5"}}
EncCasesOK == {c \in EncCases : c.vc \in ValueClasses[c.k] /\ c.pc \in ProofClasses(c.k)}

DecCases == {[kind |-> "dec", k |-> k, pc |-> pc] : k \in Kinds, pc \in PayloadClasses \ {"hugelen"}}

MsgVariants ==
    [Request  |-> {"Cmd.Replicate", "Cmd.PeerConsideredAsBad", "Query.GetStoreQuote", "Query.GetReplicatedRecord",
                   "Query.GetRegisterRecord", "Query.GetChunkExistenceProof", "Query.CheckNodeInProblem",
                   "Query.GetClosestPeers"},
     Cmd      |-> {"Replicate", "PeerConsideredAsBad"},
     Query    |-> {"GetStoreQuote", "GetReplicatedRecord", "GetRegisterRecord", "GetChunkExistenceProof",
                   "CheckNodeInProblem", "GetClosestPeers"},
     Response |-> {"Cmd.Replicate.Ok", "Cmd.Replicate.Err", "Cmd.PeerConsideredAsBad.Ok", "Cmd.PeerConsideredAsBad.Err",
                   "Query.GetStoreQuote.Ok", "Query.GetStoreQuote.Err", "Query.CheckNodeInProblem",
                   "Query.GetReplicatedRecord.Ok", "Query.GetReplicatedRecord.Err", "Query.GetRegisterRecord.Ok",
                   "Query.GetRegisterRecord.Err", "Query.GetChunkExistenceProof", "Query.GetClosestPeers"},
     NetworkAddress |-> {"PeerId", "ChunkAddress", "TransactionAddress", "RegisterAddress", "RecordKey",
                         "ScratchpadAddress"},
     Error    |-> {"UserDataDirectoryNotObtainable", "CouldNotObtainPortFromMultiAddr", "ParseRetryStrategyError",
                   "CouldNotObtainDataDir", "ChunkDoesNotExist", "RegisterNotFound", "RegisterAlreadyClaimed",
                   "RegisterRecordNotFound", "ScratchpadHexDeserializeFailed", "ScratchpadCipherTextFailed",
                   "ScratchpadCipherTextInvalid", "GetStoreQuoteFailed", "QuoteGenerationFailed",
                   "ReplicatedRecordNotFound", "RecordHeaderParsingFailed", "RecordParsingFailed", "RecordExists"}]
Backends == {"cbor", "rmp"}
MsgTypes == DOMAIN MsgVariants
MsgCases == UNION {{[kind |-> "msg", ty |-> ty, var |-> var, be |-> be] : var \in MsgVariants[ty], be \in Backends} : ty \in MsgTypes}
MsgDecCases == {[kind |-> "msgdec", ty |-> ty, be |-> be, pc |-> pc] :
                   ty \in MsgTypes, be \in Backends, pc \in PayloadClasses \ {"headeronly", "hugebin", "hugearr"}}

Cases == {[kind |-> "word", w |-> w] : w \in Words}
   \cup  {[kind |-> "cword", len |-> cw[1], c0 |-> cw[2], c1 |-> cw[3], c2 |-> cw[4]] : cw \in ClassWords}
   \cup  {[kind |-> "hdr", k |-> k] : k \in Kinds}
   \cup  EncCasesOK \cup DecCases \cup MsgCases \cup MsgDecCases

VARIABLE c
Init == c \in Cases
Next == UNCHANGED c
Spec == Init /\ [][Next]_c

\* ------------------------------------------------------------ sanity laws of the specification
\* the tag table is a bijection onto 0..7, headers are pairwise distinct and of the fixed size
SpecTagTable ==
    /\ Cardinality(Kinds) = 8
    /\ Tags = 0..7
    /\ \A k1, k2 \in Kinds : Tag[k1] = Tag[k2] => k1 = k2
    /\ \A k \in Kinds : /\ Len(HeaderBytes(k)) = HeaderSize
                        /\ KindOfTag(Tag[k]) = k
                        /\ C12_TagFixed(k, HeaderBytes(k), HeaderSize)
                        /\ \A k2 \in Kinds \ {k} : ~C12_TagFixed(k2, HeaderBytes(k), HeaderSize)
    /\ \A b \in Bases : HasProof(KindFor(b, TRUE)) /\ ~HasProof(KindFor(b, FALSE)) /\ BaseOf(KindFor(b, TRUE)) = b
    /\ {KindFor(b, p) : b \in Bases, p \in BOOLEAN} = Kinds

\* canonical headers followed by anything are accepted with their kind, unknown tags and short words are rejected
SpecHeaderAutomaton == c.kind = "word" =>
    LET w == c.w  hv == HeaderVerdict(Len(w), w) IN
    /\ hv.v \in {"accept", "may", "reject"}
    /\ (Len(w) < HeaderSize + 1 => hv.v = "reject")
    /\ (hv.v # "reject" => hv.kind \in Kinds)
    /\ (hv.v = "accept" <=> (Len(w) >= HeaderSize + 1 /\ \E k \in Kinds : SubSeq(w, 1, HeaderSize) = HeaderBytes(k)))
    /\ (hv.v = "accept" => SubSeq(w, 1, HeaderSize) = HeaderBytes(hv.kind))
    /\ (Len(w) >= HeaderSize + 1 /\ w[1] = FixArray1 /\ w[2] \in 8..127 => hv.v = "reject")
    \* the free-standing header decoder never contradicts the record one on canonical words
    /\ (hv.v = "accept" => FreeHeaderVerdict(w) = hv)
    \* the class automaton is a sound abstraction of the byte automaton
    /\ (Len(w) = 3 => ClassVerdict(3, ClassOf(C0, w[1]), ClassOf(C1, w[2]), ClassOf(C2, w[3])) = hv.v)

\* the byte classes partition the bytes
SpecClasses ==
    /\ \A tbl \in {C0, C1, C2} :
         /\ UNION {tbl[x] : x \in DOMAIN tbl} = Byte
         /\ \A x, y \in DOMAIN tbl : x # y => tbl[x] \cap tbl[y] = {}
    /\ c.kind = "cword" => ClassVerdict(c.len, c.c0, c.c1, c.c2) \in {"accept", "may", "reject"}

\* payload verdicts: a valid encoding is the only class that must decode, truncations must fail
SpecPayload == c.kind \in {"dec", "msgdec"} =>
    /\ PayloadVerdict(c.pc) \in {"accept", "may", "reject"}
    /\ (PayloadVerdict(c.pc) = "accept" <=> c.pc = "valid")
    /\ C12_DecodeTotal_Payload(c.pc, "ok") \/ C12_DecodeTotal_Payload(c.pc, "err")
    /\ ~C12_DecodeTotal_Payload(c.pc, "panic") /\ ~C12_DecodeTotal_Payload(c.pc, "abort")

\* ------------------------------------------------------------ case list for the driver
CaseOut(x) ==
    IF x.kind = "word" THEN LET hv == HeaderVerdict(Len(x.w), x.w) IN [kind |-> "word", w |-> x.w, v |-> hv.v, k |-> hv.kind]
    ELSE IF x.kind = "cword" THEN [kind |-> "cword", len |-> x.len, c0 |-> x.c0, c1 |-> x.c1, c2 |-> x.c2,
                                   v |-> ClassVerdict(x.len, x.c0, x.c1, x.c2)]
    ELSE IF x.kind = "hdr" THEN [kind |-> "hdr", k |-> x.k, bytes |-> HeaderBytes(x.k)]
    ELSE IF x.kind = "dec" THEN [kind |-> "dec", k |-> x.k, pc |-> x.pc, v |-> PayloadVerdict(x.pc)]
    ELSE IF x.kind = "msgdec" THEN [kind |-> "msgdec", ty |-> x.ty, be |-> x.be, pc |-> x.pc, v |-> PayloadVerdict(x.pc)]
    ELSE x
ClassDefs == {[kind |-> "classdef", tbl |-> "c0", name |-> n, members |-> SetToSeq(C0[n])] : n \in DOMAIN C0}
        \cup {[kind |-> "classdef", tbl |-> "c1", name |-> n, members |-> SetToSeq(C1[n])] : n \in DOMAIN C1}
        \cup {[kind |-> "classdef", tbl |-> "c2", name |-> n, members |-> SetToSeq(C2[n])] : n \in DOMAIN C2}
ASSUME IF "CASES" \in DOMAIN IOEnv
       THEN ndJsonSerialize(IOEnv.CASES, SetToSeq(ClassDefs) \o SetToSeq({CaseOut(x) : x \in Cases}))
       ELSE TRUE
=============================================================================
