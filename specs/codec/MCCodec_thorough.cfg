SPECIFICATION Spec
CONSTANTS
  Alphabet = {0, 1, 2, 3, 4, 5, 6, 7, 8, 9, 126, 127, 128, 129, 130, 144, 145, 146, 159, 192, 195, 196, 197, 198, 203, 204, 205, 206, 207, 208, 209, 217, 220, 221, 224, 255}
  MaxLen = 3
INVARIANTS SpecTagTable SpecHeaderAutomaton SpecClasses SpecPayload
CHECK_DEADLOCK FALSE
