------------------------------ MODULE CodecTrace ------------------------------
(***************************************************************************)
(* Trace specification for C12: every line of the trace is one call of the *)
(* real codecs of ant-protocol (record header / record value / messages)   *)
(* with its concrete bytes and result.  The clause operators of Codec.tla  *)
(* are the oracle.  Deterministic: one line per step; the set of           *)
(* (clause, line) pairs on which a clause is false is accumulated and      *)
(* written to IOEnv.OUT in the final state.                                *)
(***************************************************************************)
EXTENDS Codec, TLC, Json, IOUtils, SequencesExt

Rec == ndJsonDeserialize(IOEnv.TRACE)
N == Len(Rec)

VARIABLES l, viol, notes, swept
vars == <<l, viol, notes, swept>>

Known(e) == e.ev \in {"Header", "Encode", "FromRecord", "FreeHeader", "Sweep", "SweepEnd", "Decode", "MsgDecode", "Msg", "ForgedChunk",
                     "Golden", "GoldenEnd"}

When(cond, name) == IF cond THEN {name} ELSE {}

\* is_record_of_type_chunk agrees with from_record
IsChunkOK(res, k, ischunk) ==
    /\ res = "ok"  => ischunk = (IF k = "Chunk" THEN "true" ELSE "false")
    /\ res = "err" => ischunk = "err"

SweepOutcome(o) == IF o = "" THEN "err" ELSE IF o = "!" THEN "panic" ELSE "ok"

Falsified(e, sw) ==
    IF ~Known(e) THEN {"Malformed"}
    ELSE IF e.ev = "Header" THEN
             When(e.exp # HeaderBytes(e.k), "Malformed")
        \cup When(~(e.res = "ok" /\ C12_TagFixed(e.k, e.bytes, e.size)), "C12_TagFixed")
        \cup When(e.res \notin Outcomes, "C12_DecodeTotal")
    ELSE IF e.ev = "Encode" THEN
        IF e.enc # "ok" THEN {"C12_RoundTrip"} \cup When(e.enc = "panic", "C12_DecodeTotal")
        ELSE When(~C12_TagFixed(e.k, e.head, e.size), "C12_TagFixed")
        \cup When(~(C12_RoundTrip(e.k, e.hk, e.dec, e.eqv, e.eqb) /\ e.hdr = "ok" /\ IsChunkOK(e.hdr, e.hk, e.ischunk)), "C12_RoundTrip")
        \cup When(e.chunk /\ ~C12_ChunkAddressRecomputed(e.dec, e.addr), "C12_ChunkAddressRecomputed")
        \cup When(e.hdr \notin Outcomes \/ e.dec \notin Outcomes \/ e.ischunk = "panic", "C12_DecodeTotal")
    ELSE IF e.ev = "FromRecord" THEN
        LET hv == HeaderVerdict(e.len, e.w) IN
             When(e.exp # "" /\ e.exp # hv.v, "Malformed")
        \cup When(~(C12_DecodeTotal_Header(hv, e.res, e.k) /\ IsChunkOK(e.res, e.k, e.ischunk)), "C12_DecodeTotal")
    ELSE IF e.ev = "FreeHeader" THEN
        When(~C12_DecodeTotal_Header(FreeHeaderVerdict(e.w), e.res, e.k), "C12_DecodeTotal")
    ELSE IF e.ev = "Sweep" THEN
        When(~(Len(e.out) = 256 /\ \A i \in 1..256 :
                   C12_DecodeTotal_Header(Window(HeaderSize + 1, e.b0, e.b1, i - 1), SweepOutcome(e.out[i]),
                                          IF SweepOutcome(e.out[i]) = "ok" THEN e.out[i] ELSE "")), "C12_DecodeTotal")
    ELSE IF e.ev = "SweepEnd" THEN
             When(e.words # 16777216 \/ e.short_words # 65793, "Malformed")
        \cup When(~(e.panic = 0 /\ e.short_ok = 0 /\ e.short_panic = 0 /\ AcceptPairs \subseteq sw), "C12_DecodeTotal")
    ELSE IF e.ev = "Decode" THEN
             When(e.pc \notin PayloadClasses \/ e.k \notin Kinds \/ (e.pc = "prefix" /\ ~(e.cut = e.len /\ e.cut < e.full)), "Malformed")
        \cup When(~C12_DecodeTotal_Payload(e.pc, e.res), "C12_DecodeTotal")
        \cup When(e.chunk /\ ~C12_ChunkAddressRecomputed(e.res, e.addr), "C12_ChunkAddressRecomputed")
        \cup When(e.res = "ok" /\ ~e.stable, "C12_RoundTrip")
    ELSE IF e.ev = "MsgDecode" THEN
             When(e.pc \notin PayloadClasses \/ (e.pc = "prefix" /\ ~(e.cut = e.len /\ e.cut < e.full)), "Malformed")
        \cup When(~C12_DecodeTotal_Payload(e.pc, IF e.res = "unstable" THEN "ok" ELSE e.res), "C12_DecodeTotal")
        \cup When(e.res = "unstable", "C12_RoundTrip")
    ELSE IF e.ev = "Msg" THEN
        IF e.enc # "ok" THEN {"C12_RoundTrip"} \cup When(e.enc = "panic", "C12_DecodeTotal")
        ELSE When(~(e.dec = "ok" /\ e.eqv /\ e.eqb), "C12_RoundTrip")
        \cup When(e.dec \notin Outcomes, "C12_DecodeTotal")
    ELSE IF e.ev = "Golden" THEN
             \* a vector the driver has no fixed value for (or listed twice): the file and the driver disagree
             When(~e.known \/ e.fam \notin {"rec", "msg"}, "Malformed")
        \cup When(~C12_WireStable(e.dec, e.reenc, e.same), "C12_WireStable")
        \cup When(e.fam = "rec" /\ ~C12_TagFixed(e.k, e.head, e.size), "C12_TagFixed")
        \cup When(e.dec \notin Outcomes, "C12_DecodeTotal")
    ELSE IF e.ev = "GoldenEnd" THEN
        \* every fixed value of the driver has its vector in the file
        When(e.lines = 0 \/ e.missing # 0 \/ e.lines # e.expected, "Malformed")
    ELSE \* ForgedChunk
             When(e.res \notin Outcomes, "C12_DecodeTotal")
        \cup When(~C12_ChunkAddressRecomputed(e.res, e.addr) \/ (e.res = "ok" /\ e.forged), "C12_ChunkAddressRecomputed")

\* observations that are not violations: a non-canonical representation of a known header was accepted
Noted(e) ==
    IF e.ev = "FromRecord" /\ e.res = "ok" /\ HeaderVerdict(e.len, e.w).v = "may" THEN {"NonCanonicalHeaderAccepted"}
    ELSE IF e.ev = "Sweep" /\ <<e.b0, e.b1>> \notin AcceptPairs THEN {"NonCanonicalHeaderAccepted"}
    ELSE {}

Init == l = 1 /\ viol = {} /\ notes = {} /\ swept = {}
Next == /\ l <= N
        /\ LET e == Rec[l] IN
           /\ viol' = viol \cup {[clause |-> c, line |-> l] : c \in Falsified(e, swept)}
           /\ notes' = notes \cup {[note |-> n, line |-> l] : n \in Noted(e)}
           /\ swept' = IF Known(e) /\ e.ev = "Sweep" THEN swept \cup {<<e.b0, e.b1>>} ELSE swept
        /\ l' = l + 1
Spec == Init /\ [][Next]_vars

\* written once, in the state that has consumed the whole trace
Report == l = N + 1 =>
          ndJsonSerialize(IOEnv.OUT, << [lines |-> N, violations |-> SetToSeq(viol), notes |-> SetToSeq(notes)] >>)
=============================================================================
