SPECIFICATION Spec
CONSTANTS
  Alphabet = {0, 1, 2, 3, 4, 5, 6, 7, 8, 127, 129, 144, 145, 146, 196, 204, 208, 255}
  MaxLen = 3
INVARIANTS SpecTagTable SpecHeaderAutomaton SpecClasses SpecPayload
CHECK_DEADLOCK FALSE
