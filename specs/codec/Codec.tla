-------------------------------- MODULE Codec --------------------------------
(***************************************************************************)
(* Executable specification of the record / message wire contract          *)
(* (property C12).                                                         *)
(*                                                                         *)
(* Written from the statement of C12 and from the wire format deployed at  *)
(* the pinned commit (observed, not copied from header.rs): a record value *)
(* is  HeaderBytes(kind) \o Payload , the header is the MessagePack        *)
(* encoding of a one-field structure holding the numeric tag of the kind:  *)
(* fixarray(1) = 0x91 = 145 followed by the tag as a positive fixint.      *)
(* The tag numbers are part of the contract ("fixed so that independently  *)
(* built nodes interoperate"): they are a constant table here and a        *)
(* change of the table in the code is a violation, whatever the code does  *)
(* consistently with itself.                                               *)
(*                                                                         *)
(* Bytes are naturals 0..255, byte strings are sequences of bytes.         *)
(***************************************************************************)
EXTENDS Naturals, Sequences, FiniteSets

Byte == 0..255

\* ------------------------------------------------------------ the tag table
Kinds == {"ChunkWithPayment", "Chunk", "Transaction", "Register", "RegisterWithPayment",
          "Scratchpad", "ScratchpadWithPayment", "TransactionWithPayment"}

Tag == [ChunkWithPayment       |-> 0,
        Chunk                  |-> 1,
        Transaction            |-> 2,
        Register               |-> 3,
        RegisterWithPayment    |-> 4,
        Scratchpad             |-> 5,
        ScratchpadWithPayment  |-> 6,
        TransactionWithPayment |-> 7]

Tags == {Tag[k] : k \in Kinds}
KindOfTag(t) == CHOOSE k \in Kinds : Tag[k] = t

\* kinds come in pairs: the same value with / without an attached proof of payment
Bases == {"Chunk", "Scratchpad", "Transaction", "Register"}
KindFor(base, proof) ==
    IF proof THEN (CASE base = "Chunk" -> "ChunkWithPayment" [] base = "Scratchpad" -> "ScratchpadWithPayment"
                     [] base = "Transaction" -> "TransactionWithPayment" [] base = "Register" -> "RegisterWithPayment")
    ELSE base
HasProof(k) == k \in {"ChunkWithPayment", "ScratchpadWithPayment", "TransactionWithPayment", "RegisterWithPayment"}
BaseOf(k) == CHOOSE b \in Bases : k \in {KindFor(b, TRUE), KindFor(b, FALSE)}

\* ------------------------------------------------------------ the header
HeaderSize == 2
FixArray1 == 145                       \* 0x91: MessagePack array of one element
HeaderBytes(k) == <<FixArray1, Tag[k]>>

\* MessagePack markers that matter inside the 3-byte window the header decoder looks at
FixMap1 == 129                         \* 0x81 map of one pair
Bin8    == 196                         \* 0xc4 byte string, 8-bit length
UInt8   == 204                         \* 0xcc
Int8    == 208                         \* 0xd0

(***************************************************************************)
(* Decoder acceptance for the header of a record value (RecordHeader::     *)
(* from_record).  The decoder sees the length of the value and its first   *)
(* HeaderSize + 1 bytes.  Three verdicts:                                  *)
(*   accept k : the word starts with the canonical header of kind k and    *)
(*              has at least one payload byte -> must decode to k          *)
(*   reject   : too short, or the window holds no known tag -> must be an  *)
(*              error                                                      *)
(*   may k    : the window is another MessagePack representation of the    *)
(*              same one-field structure with a *known* tag k (tag as      *)
(*              uint8 / int8, the structure as a one-pair map keyed by the *)
(*              field index, or a one-byte bin read as a sequence).  The   *)
(*              statement is silent about non-canonical representations:   *)
(*              either an error or kind k is fine, anything else is not.   *)
(***************************************************************************)
Verdict(v, k) == [v |-> v, kind |-> k]
Window(len, b0, b1, b2) ==
    IF len < HeaderSize + 1 THEN Verdict("reject", "")
    ELSE IF b0 = FixArray1 /\ b1 \in Tags THEN Verdict("accept", KindOfTag(b1))
    ELSE IF b0 = FixArray1 /\ b1 \in {UInt8, Int8} /\ b2 \in Tags THEN Verdict("may", KindOfTag(b2))
    ELSE IF b0 = Bin8 /\ b1 = 1 /\ b2 \in Tags THEN Verdict("may", KindOfTag(b2))
    ELSE IF b0 = FixMap1 /\ b1 = 0 /\ b2 \in Tags THEN Verdict("may", KindOfTag(b2))
    ELSE Verdict("reject", "")

\* w: the first (up to) three bytes of a value of length len
HeaderVerdict(len, w) ==
    IF len < HeaderSize + 1 \/ Len(w) < HeaderSize + 1 THEN Verdict("reject", "")
    ELSE Window(len, w[1], w[2], w[3])

\* pairs of leading bytes under which some word must be accepted
AcceptPairs == {<<FixArray1, t>> : t \in Tags}

(***************************************************************************)
(* The same automaton over byte classes (what TLC enumerates exhaustively; *)
(* MCCodec checks that it agrees with HeaderVerdict on every concrete word *)
(* over its alphabet).                                                     *)
(***************************************************************************)
LenClasses == {0, 1, 2, 3, 4}                          \* 4 stands for "longer than the window"
C0 == [arr1 |-> {FixArray1}, map1 |-> {FixMap1}, bin8 |-> {Bin8},
       arrN |-> {144} \cup (146..159) \cup {220, 221},
       other |-> Byte \ ({FixArray1, FixMap1, Bin8, 144} \cup (146..159) \cup {220, 221})]
C1 == [t0 |-> {0}, t1 |-> {1}, t2_7 |-> 2..7, unk |-> 8..127, u8 |-> {UInt8}, i8 |-> {Int8},
       other |-> (128..255) \ {UInt8, Int8}]
C2 == [known |-> 0..7, other |-> 8..255]
ClassOf(tbl, b) == CHOOSE c \in DOMAIN tbl : b \in tbl[c]

ClassVerdict(len, c0, c1, c2) ==
    IF len < HeaderSize + 1 THEN "reject"
    ELSE IF c0 = "arr1" /\ c1 \in {"t0", "t1", "t2_7"} THEN "accept"
    ELSE IF c0 = "arr1" /\ c1 \in {"u8", "i8"} /\ c2 = "known" THEN "may"
    ELSE IF c0 = "bin8" /\ c1 = "t1" /\ c2 = "known" THEN "may"
    ELSE IF c0 = "map1" /\ c1 = "t0" /\ c2 = "known" THEN "may"
    ELSE "reject"

(***************************************************************************)
(* RecordHeader::try_deserialize on a free byte string (no window): only   *)
(* the canonical prefix is decided, the rest of MessagePack is "may".      *)
(***************************************************************************)
FreeHeaderVerdict(w) ==
    IF Len(w) < HeaderSize THEN Verdict("reject", "")
    ELSE IF w[1] = FixArray1 /\ w[2] \in Tags THEN Verdict("accept", KindOfTag(w[2]))
    ELSE IF w[1] = FixArray1 /\ w[2] \in ((8..127) \cup (224..255)) THEN Verdict("reject", "")
    ELSE Verdict("may", "")

(***************************************************************************)
(* Payload decoding (try_deserialize_record::<T> and the message codecs).  *)
(* MessagePack and CBOR values are self-delimiting, so a proper prefix of  *)
(* one complete value, an empty payload, and a value whose declared length *)
(* exceeds the bytes present are never complete values: they must be       *)
(* errors.  Bytes that merely *may* be a value of the type (bit flips,     *)
(* random bytes, another type's encoding, trailing garbage) may decode or  *)
(* fail -- but never crash.                                                *)
(***************************************************************************)
PayloadClasses == {"valid", "headeronly", "prefix", "hugebin", "hugearr", "hugelen", "trailing", "flip", "random", "othertype", "zeros"}
PayloadVerdict(pc) ==
    IF pc = "valid" THEN "accept"
    ELSE IF pc \in {"headeronly", "prefix", "hugebin", "hugearr", "hugelen"} THEN "reject"
    ELSE "may"

Outcomes == {"ok", "err"}               \* "panic" and "abort" are outcomes of the code, never of the contract

OutcomeAllowed(verdict, res) ==
    /\ res \in Outcomes
    /\ verdict = "accept" => res = "ok"
    /\ verdict = "reject" => res = "err"

(***************************************************************************)
(* The clauses of C12, as predicates over one observed call.               *)
(***************************************************************************)
\* the header of every encoding is the fixed-size canonical header with the fixed tag of its kind
C12_TagFixed(kind, bytes, size) ==
    /\ kind \in Kinds
    /\ size = HeaderSize
    /\ Len(bytes) >= HeaderSize
    /\ <<bytes[1], bytes[2]>> = HeaderBytes(kind)

\* "the numeric tag of each kind is fixed so that independently built nodes interoperate": bytes produced by the
\* pinned revision for a fixed value (a golden vector) are what any other build must produce for that value and
\* must decode -- the tags of record kinds and of every message / address / error variant, and the layout around
\* them, are on the wire.  dec = the current build decodes the golden bytes; reenc = it encodes the decoded value
\* to exactly the golden bytes; same = it encodes the fixed value itself to exactly the golden bytes.
C12_WireStable(dec, reenc, same) == dec = "ok" /\ reenc /\ same

\* decode(encode(kind, v)) = (kind, v): the header decodes to the same kind, the payload decodes, the decoded
\* value equals the original and encodes to the same bytes again
C12_RoundTrip(kind, hdrKind, dec, eqValue, eqBytes) ==
    /\ hdrKind = kind
    /\ dec = "ok"
    /\ eqValue
    /\ eqBytes

\* whenever bytes decode to a chunk, the chunk's address is the hash of its content (independently computed)
C12_ChunkAddressRecomputed(dec, addrIsHash) == dec = "ok" => addrIsHash

\* header decoding is total and agrees with the acceptance automaton
C12_DecodeTotal_Header(hv, res, resKind) ==
    /\ res \in Outcomes
    /\ hv.v = "accept" => (res = "ok" /\ resKind = hv.kind)
    /\ hv.v = "reject" => res = "err"
    /\ (hv.v = "may" /\ res = "ok" /\ hv.kind # "") => resKind = hv.kind
    /\ res = "ok" => resKind \in Kinds

\* payload / message decoding is total and agrees with the payload classes
C12_DecodeTotal_Payload(pc, res) == OutcomeAllowed(PayloadVerdict(pc), res)
=============================================================================
