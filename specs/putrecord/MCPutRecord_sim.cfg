SPECIFICATION Spec
CONSTANTS
  CGS = 5
  Variant = "impl"
  NattSet = {1, 2}
  GnattSet = {1, 2}
  GqSet = {"One", "N2", "Maj", "All"}
  GqRead = {"One", "N2", "Maj", "All"}
  PqSet = {"One", "Maj", "All"}
  VerifSet = {"None", "Network", "Crdt", "ChunkProof"}
  NClose = 7
  Record = TRUE
  KnownMask = {"C05-merge-bypasses-target"}
INVARIANTS NoClauseFalsified ModelHasItsShape Emit
CHECK_DEADLOCK FALSE
