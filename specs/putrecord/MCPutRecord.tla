---------------------------- MODULE MCPutRecord ----------------------------
(***************************************************************************)
(* Model-checking harness for PutRecord: TLC chooses the configuration     *)
(* (retry strategy, use_put_record_to, verification kind, expected value,  *)
(* read quorum, retry strategy of the read) and, step by step, the         *)
(* environment (the reply to each PutRecord command, the answer to each    *)
(* GetNetworkRecord command of the verification, the number of close nodes *)
(* whose ChunkProof verifies in each round).  In every finished call the   *)
(* clauses are evaluated (`bad` = clauses falsified beyond the listed      *)
(* known finding).  With Record = TRUE a finished call is printed as a     *)
(* scenario (configuration + environment script) for the driver.           *)
(***************************************************************************)
EXTENDS PutRecord, TLC, Json

CONSTANTS NattSet,      \* attempts of the put retry strategy
          GnattSet,     \* attempts of the verification's retry strategy
          GqSet,        \* read quorums of the ChunkProof verification (they decide how many proofs are needed)
          GqRead,       \* read quorums of the Network / Crdt verification (carried by the command, decided by the SwarmDriver)
          PqSet,        \* put quorums
          VerifSet,     \* verification kinds
          NClose,       \* close nodes asked per ChunkProof round
          Record,       \* TRUE: print finished calls as scenarios
          KnownMask     \* ids of the listed known findings

vars == pvars

CfgSet == UNION {
    IF vf = "None"
    THEN {[natt |-> na, to |-> to, verif |-> vf, target |-> FALSE, gq |-> "Maj", gnatt |-> 1, pq |-> pq] :
              na \in NattSet, to \in BOOLEAN, pq \in PqSet}
    ELSE {[natt |-> na, to |-> to, verif |-> vf, target |-> tg, gq |-> gq, gnatt |-> gn, pq |-> pq] :
              na \in NattSet, to \in BOOLEAN, pq \in PqSet, gn \in GnattSet,
              gq \in (IF vf = "ChunkProof" THEN GqSet ELSE GqRead),
              tg \in (IF vf = "ChunkProof" THEN {FALSE} ELSE BOOLEAN)}
    : vf \in VerifSet}

Init == \E c \in CfgSet : PInit(c)

DoIssue == Issue
DoPutReply == \E r \in {"Ok", "Err"} : PutReply(r)
DoWait == Wait
DoReadAnswer == \E a \in ReadClass : ReadAnswer(a)
\* representative numbers of verifying close nodes: none, one short of the quorum, exactly the quorum, all
ProofVs == {0, QV(cfg.gq) - 1, QV(cfg.gq), NClose}
DoProofRound == \E v \in ProofVs : ProofRound(NClose, v)
DoEndAttempt == EndAttempt
DoBackoff == Backoff

Next == DoIssue \/ DoPutReply \/ DoWait \/ DoReadAnswer \/ DoProofRound \/ DoEndAttempt \/ DoBackoff
Spec == Init /\ [][Next]_vars

Call == [mode |-> 1, cfg |-> cfg, att |-> done, res |-> res]
Bad == {v.clause : v \in {y \in Verdicts(Call) : y.kf \notin KnownMask}}
NoClauseFalsified == pc = "Done" => Bad = {}
\* the model is what the recorded calls are compared with: it has the shape it is compared by
ModelHasItsShape == (pc = "Done" /\ Variant = "impl") => CallShape(Call)

Scn == [cfg |-> cfg,
        att |-> [i \in 1..Len(done) |->
                    [reply |-> done[i].reply,
                     reads |-> [j \in 1..Len(done[i].reads) |-> done[i].reads[j].a],
                     proofs |-> [j \in 1..Len(done[i].proofs) |-> done[i].proofs[j].v]]],
        res |-> res]
Emit == (Record /\ pc = "Done") => PrintT(<<"SCN", ToJson(Scn)>>)
=============================================================================
