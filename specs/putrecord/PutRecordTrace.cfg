SPECIFICATION Spec
CONSTANTS
  CGS = 5
  Variant = "impl"
  KnownMask = {"C05-merge-bypasses-target"}
INVARIANT Report
CHECK_DEADLOCK FALSE
