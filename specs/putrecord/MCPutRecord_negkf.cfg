SPECIFICATION Spec
CONSTANTS
  CGS = 5
  Variant = "impl"
  NattSet = {1, 2}
  GnattSet = {1, 2}
  GqSet = {"One", "Maj", "All"}
  GqRead = {"Maj"}
  PqSet = {"All"}
  VerifSet = {"None", "Network", "Crdt", "ChunkProof"}
  NClose = 7
  Record = FALSE
  KnownMask = {}
INVARIANTS NoClauseFalsified ModelHasItsShape
CHECK_DEADLOCK FALSE
