--------------------------- MODULE PutRecordTrace ---------------------------
(***************************************************************************)
(* Trace specification for the put path.  Each `Put` line is ONE finished  *)
(* call of the REAL Network::put_record:                                   *)
(*   mode 1  the harness owns the command receiver and answers every       *)
(*           PutRecord / PutRecordTo / GetNetworkRecord /                  *)
(*           GetClosestPeersToAddressFromNetwork / SendRequest command as  *)
(*           the scenario prescribes;                                      *)
(*   mode 2  the commands are handled by the REAL SwarmDriver of a node    *)
(*           built offline (handle_network_cmd), kad PutRecord result      *)
(*           events and the peers' GetRecord replies are injected through  *)
(*           handle_kad_event; the harness sits between the caller and the *)
(*           handler on every reply channel and logs what was delivered.   *)
(* The line carries the configuration, per attempt the command observed    *)
(* (record bytes compared with the caller's, quorum, peers), the replies   *)
(* its sender got, the verification commands with their answers, and the   *)
(* result.  Times are data.                                                *)
(*                                                                         *)
(* Verdict: the clause operators of PutRecord.tla on the recorded call.    *)
(* Witnesses matched by the listed known finding go to `known`.  Drift:    *)
(* the recorded call does not have the shape / result the state machine    *)
(* produces for the same environment.                                      *)
(***************************************************************************)
EXTENDS PutRecord, TLC, Json, IOUtils, SequencesExt

Rec == ndJsonDeserialize(IOEnv.TRACE)
N == Len(Rec)

CONSTANT KnownMask

VARIABLES l, viol, known, drift, stats
tvars == <<l, viol, known, drift, stats>>

Kinds == {"Reset", "Put"}
WfRead(r) == r.a \in ReadClass \cup {"Other"} /\ r.q \in Quorums \cup {"Other"} /\ r.tgt \in BOOLEAN /\ r.n \in Nat
WfProof(p) == p.n \in Nat /\ p.v \in Nat
WfAtt(a) == /\ a.cmd \in {"PutRecord", "PutRecordTo"} /\ a.same \in BOOLEAN /\ a.q \in Quorums \cup {"Other"}
            /\ a.peersok \in BOOLEAN /\ a.nrep \in 0..2 /\ a.reply \in {"Ok", "Err", "None"}
            /\ \A j \in 1..Len(a.reads) : WfRead(a.reads[j])
            /\ \A j \in 1..Len(a.proofs) : WfProof(a.proofs[j])
WellFormed(e) ==
    IF e.ev = "Reset" THEN TRUE
    ELSE /\ e.mode \in {1, 2}
         /\ e.cfg.natt \in 1..16 /\ e.cfg.gnatt \in 1..16 /\ e.cfg.to \in BOOLEAN /\ e.cfg.target \in BOOLEAN
         /\ e.cfg.verif \in Verifs /\ e.cfg.gq \in Quorums /\ e.cfg.pq \in Quorums
         /\ \A i \in 1..Len(e.att) : WfAtt(e.att[i])
         /\ e.res.kind \in {"Ok", "Err", "Panic"}

CallOf(e) ==
    [mode |-> e.mode,
     cfg |-> [natt |-> e.cfg.natt, to |-> e.cfg.to, verif |-> e.cfg.verif, target |-> e.cfg.target, gq |-> e.cfg.gq,
              gnatt |-> e.cfg.gnatt, pq |-> e.cfg.pq],
     att |-> [i \in 1..Len(e.att) |->
                [cmd |-> e.att[i].cmd, same |-> e.att[i].same, q |-> e.att[i].q, peersok |-> e.att[i].peersok,
                 nrep |-> e.att[i].nrep, reply |-> e.att[i].reply,
                 reads |-> [j \in 1..Len(e.att[i].reads) |->
                               [a |-> e.att[i].reads[j].a, q |-> e.att[i].reads[j].q, tgt |-> e.att[i].reads[j].tgt,
                                n |-> e.att[i].reads[j].n]],
                 proofs |-> [j \in 1..Len(e.att[i].proofs) |-> [n |-> e.att[i].proofs[j].n, v |-> e.att[i].proofs[j].v]]]],
     res |-> [kind |-> e.res.kind, e |-> e.res.e]]

\* the recorded call against the state machine: same shape, same result (n is not part of the model: mode 1 logs 0)
Conforms(c) == c.att # <<>> /\ CallShape(c)

Stats0 == [calls |-> 0, mode2 |-> 0, ok |-> 0, err |-> 0, attempts |-> 0, retried |-> 0, reads |-> 0, proofrounds |-> 0,
           targetok |-> 0, crdtsplit |-> 0, notfound |-> 0, replyerr |-> 0]
Cnt(b) == IF b THEN 1 ELSE 0
StatsNext(c) ==
    [stats EXCEPT !.calls = @ + 1, !.mode2 = @ + Cnt(c.mode = 2),
                  !.ok = @ + Cnt(c.res.kind = "Ok"), !.err = @ + Cnt(c.res.kind # "Ok"),
                  !.attempts = @ + Len(c.att), !.retried = @ + Cnt(Len(c.att) > 1),
                  !.reads = @ + FoldLeft(LAMBDA acc, a : acc + Len(a.reads), 0, c.att),
                  !.proofrounds = @ + FoldLeft(LAMBDA acc, a : acc + Len(a.proofs), 0, c.att),
                  !.targetok = @ + Cnt(c.cfg.target /\ c.res.kind = "Ok"),
                  !.crdtsplit = @ + Cnt(c.att # <<>> /\ c.cfg.verif = "Crdt" /\ EndsInSplit(Last(c.att)) /\ c.res.kind = "Ok"),
                  !.notfound = @ + Cnt(c.res.e = "RecordNotStoredByNodes"),
                  !.replyerr = @ + Cnt(c.res.e = "PutReplyErr")]

Init == l = 1 /\ viol = {} /\ known = {} /\ drift = {} /\ stats = Stats0
Next ==
    /\ l <= N
    /\ l' = l + 1
    /\ LET e == Rec[l] IN
       IF e.ev \notin Kinds \/ ~WellFormed(e) THEN
            /\ viol' = viol \cup {[clause |-> "Malformed", line |-> l]}
            /\ UNCHANGED <<known, drift, stats>>
       ELSE IF e.ev = "Reset" THEN UNCHANGED <<viol, known, drift, stats>>
       ELSE LET c == CallOf(e)
                vs == Verdicts(c)
            IN /\ viol' = viol \cup {[clause |-> y.clause, line |-> l] : y \in {z \in vs : z.kf \notin KnownMask}}
               /\ known' = known \cup {[kf |-> y.kf, clause |-> y.clause, line |-> l] : y \in {z \in vs : z.kf \in KnownMask}}
               /\ drift' = IF Conforms(c) THEN drift ELSE drift \cup {l}
               /\ stats' = StatsNext(c)
\* (the variables of the state machine are not used by the trace specification)
Spec == Init /\ PInit([natt |-> 1]) /\ [][Next /\ UNCHANGED pvars]_<<tvars, pvars>>

Report == l = N + 1 =>
          ndJsonSerialize(IOEnv.OUT, << [lines |-> N, violations |-> SetToSeq(viol), known |-> SetToSeq(known),
                                         drift |-> SetToSeq(drift), stats |-> stats] >>)
=============================================================================
