----------------------------- MODULE PutRecord -----------------------------
(***************************************************************************)
(* One call of Network::put_record (client-side put with verification      *)
(* read-back and retries).                                                 *)
(*                                                                         *)
(* Implementation-shaped model of                                          *)
(*   ant-networking/src/lib.rs   put_record (retry loop over               *)
(*                               RetryStrategy::backoff()), put_record_once*)
(*                               (one PutRecord / PutRecordTo command, its *)
(*                               reply, the wait, the verification),       *)
(*                               get_record_from_network (its own retry    *)
(*                               loop), verify_chunk_existence (rounds)    *)
(*   ant-networking/src/cmd.rs   PutRecord / PutRecordTo handlers (the one *)
(*                               reply every command's sender gets)        *)
(*   ant-networking/src/event/kad.rs  PutRecord result events (logged only)*)
(*                                                                         *)
(* State machine: Issue -> PutReply -> Wait -> ReadAnswer* | ProofRound*   *)
(* -> EndAttempt -> (Backoff -> Issue | Done).  A finished call is the     *)
(* record [mode, cfg, att, res]; the clause operators at the end are       *)
(* written from the documented intent and read only such a record, so that *)
(* they are evaluated unchanged on the model (MCPutRecord) and on calls    *)
(* recorded from the real code (PutRecordTrace).                           *)
(*                                                                         *)
(*   cfg   natt    attempts of PutRecordCfg.retry_strategy (None = 1,      *)
(*                 N(n) = n, Quick = 4)                                    *)
(*         to      use_put_record_to is set                                *)
(*         verif   "None" | "Network" | "Crdt" | "ChunkProof"              *)
(*         target  the verification GetRecordCfg carries target_record =   *)
(*                 the record being put                                    *)
(*         gq      get_quorum of the verification cfg                      *)
(*         gnatt   attempts of the verification cfg's retry strategy       *)
(*         pq      put_quorum                                              *)
(*   att   one record per attempt (= per PutRecord / PutRecordTo command): *)
(*         cmd     which command was issued                                *)
(*         same    it carried the caller's record byte for byte, same key  *)
(*         q       the quorum it carried                                   *)
(*         peersok PutRecordTo carried exactly the configured peers        *)
(*         nrep    replies its sender got (0 or 1; 2 = dropped unanswered) *)
(*         reply   "Ok" | "Err" | "None"                                   *)
(*         reads   the GetNetworkRecord commands of the verification, each *)
(*                 [a, q, tgt, n]: answer class, quorum and target carried,*)
(*                 n = distinct peers that returned the target's bytes     *)
(*                 under the key (known only when the real SwarmDriver     *)
(*                 accumulated raw replies: mode 2)                        *)
(*         proofs  the ChunkProof rounds [n, v]: requests sent, proofs     *)
(*                 that verify                                             *)
(*   res   [kind, e]  what put_record returned                             *)
(***************************************************************************)
EXTENDS Naturals, FiniteSets, Sequences

CONSTANT CGS        \* CLOSE_GROUP_SIZE (5 in the code)

Verifs == {"None", "Network", "Crdt", "ChunkProof"}
Quorums == {"One", "N2", "Maj", "All"}
QV(q) == CASE q = "One" -> 1 [] q = "N2" -> 2 [] q = "Maj" -> (CGS \div 2) + 1 [] q = "All" -> CGS [] OTHER -> CGS + 1

\* answer classes of one GetNetworkRecord command (what the SwarmDriver delivers to get_record_from_network)
\*   OkMatch     Ok(record) byte-identical to the record put
\*   OkOther     Ok(record) with other content (a contract-abiding SwarmDriver gives it only when no target was set)
\*   SplitMerge  SplitRecord whose versions the client-side merge turns into one record (two transaction records)
\*   Split       SplitRecord that cannot be merged (two chunks)
ReadOk == {"OkMatch", "OkOther", "SplitMerge"}       \* get_record_from_network returns Ok(record) at once
ReadErr == {"Split", "NotFound", "NotEnoughCopies", "QueryTimeout", "RecordDoesNotMatch"}
ReadClass == ReadOk \cup ReadErr

Last(s) == s[Len(s)]

\* ---- what the verification of one attempt amounted to
\* outcome of get_record_from_network over the commands it issued: "Ok" or the error class of the last answer
ReadOutcome(reads) == IF reads = <<>> THEN "NoRead"
                      ELSE IF Last(reads).a \in ReadOk THEN "Ok" ELSE Last(reads).a
ProofOutcome(cfg, proofs) == IF proofs # <<>> /\ Last(proofs).v >= QV(cfg.gq) THEN "Ok" ELSE "FailedToVerifyChunkProof"

ReplyErr(a) == IF a.reply = "Ok" THEN "" ELSE IF a.reply = "Err" THEN "PutReplyErr" ELSE "ChannelDropped"

\* The error an attempt ends with ("" = the attempt succeeded), as documented for put_record_once: the reply is
\* awaited; with verification configured a failed verification is the error (RecordNotFound mapped to
\* RecordNotStoredByNodes, a split tolerated for CRDT verification only); else the PUT's own reply is the result.
AttemptError(cfg, a) ==
    IF a.reply \notin {"Ok", "Err"} THEN "ChannelDropped"
    ELSE IF cfg.verif = "None" THEN ReplyErr(a)
    ELSE IF cfg.verif = "ChunkProof" THEN
         IF ProofOutcome(cfg, a.proofs) = "Ok" THEN ReplyErr(a) ELSE "FailedToVerifyChunkProof"
    ELSE LET ro == ReadOutcome(a.reads) IN
         IF ro = "Ok" THEN ReplyErr(a)
         ELSE IF ro = "NotFound" THEN "RecordNotStoredByNodes"
         ELSE IF ro = "Split" /\ cfg.verif = "Crdt" THEN ReplyErr(a)
         ELSE ro

Ok0 == [kind |-> "Ok", e |-> ""]
ErrR(e) == [kind |-> "Err", e |-> e]
\* result of the call given its attempts (the last one decides)
ModelResult(cfg, att) == LET e == AttemptError(cfg, Last(att)) IN IF e = "" THEN Ok0 ELSE ErrR(e)

\* shape of one attempt as the state machine below produces it (used as drift predicate on recorded calls)
ReadsShape(cfg, reads) ==
    /\ Len(reads) >= 1 /\ Len(reads) <= cfg.gnatt
    /\ \A i \in 1..(Len(reads) - 1) : reads[i].a \notin ReadOk
    /\ (Last(reads).a \notin ReadOk => Len(reads) = cfg.gnatt)
ProofsShape(cfg, proofs) ==
    /\ Len(proofs) >= 1 /\ Len(proofs) <= cfg.gnatt
    /\ \A i \in 1..(Len(proofs) - 1) : proofs[i].v < QV(cfg.gq)
    /\ (Last(proofs).v < QV(cfg.gq) => Len(proofs) = cfg.gnatt)
AttemptShape(cfg, a) ==
    IF a.reply \notin {"Ok", "Err"} THEN a.reads = <<>> /\ a.proofs = <<>>
    ELSE IF cfg.verif = "None" THEN a.reads = <<>> /\ a.proofs = <<>>
    ELSE IF cfg.verif = "ChunkProof" THEN a.reads = <<>> /\ ProofsShape(cfg, a.proofs)
    ELSE a.proofs = <<>> /\ ReadsShape(cfg, a.reads)
CallShape(c) ==
    /\ Len(c.att) >= 1 /\ Len(c.att) <= c.cfg.natt
    /\ \A i \in 1..Len(c.att) : AttemptShape(c.cfg, c.att[i])
    /\ \A i \in 1..(Len(c.att) - 1) : AttemptError(c.cfg, c.att[i]) # ""
    /\ (AttemptError(c.cfg, Last(c.att)) # "" => Len(c.att) = c.cfg.natt)
    /\ c.res = ModelResult(c.cfg, c.att)

(***************************************************************************)
(* The state machine.  `Variant` lets a negative configuration break it.   *)
(***************************************************************************)
CONSTANT Variant     \* "impl" | "ignoreverify" (negative control: a failed verification does not fail the attempt)

VARIABLES pc, cfg, cur, done, res
pvars == <<pc, cfg, cur, done, res>>

NoAttempt == [cmd |-> "", same |-> TRUE, q |-> "One", peersok |-> TRUE, nrep |-> 0, reply |-> "None",
              reads |-> <<>>, proofs |-> <<>>]

PInit(c) == pc = "Issue" /\ cfg = c /\ cur = NoAttempt /\ done = <<>> /\ res = [kind |-> "", e |-> ""]

\* put_record_once: one command carrying the caller's record, cfg.put_quorum (and the configured peers)
Issue == /\ pc = "Issue"
         /\ cur' = [NoAttempt EXCEPT !.cmd = IF cfg.to THEN "PutRecordTo" ELSE "PutRecord", !.q = cfg.pq]
         /\ pc' = "AwaitReply"
         /\ UNCHANGED <<cfg, done, res>>
\* the handler's one reply (cmd.rs): Ok once kad accepted the record, Err when the local store refused it
PutReply(r) == /\ pc = "AwaitReply"
               /\ cur' = [cur EXCEPT !.reply = r, !.nrep = 1]
               /\ pc' = IF cfg.verif = "None" THEN "EndAttempt" ELSE "Wait"
               /\ UNCHANGED <<cfg, done, res>>
\* MIN_WAIT_BEFORE_READING_A_PUT .. MAX_WAIT_BEFORE_READING_A_PUT
Wait == pc = "Wait" /\ pc' = "Verify" /\ UNCHANGED <<cfg, cur, done, res>>
\* one GetNetworkRecord command of get_record_from_network and its answer; every error is retried after the
\* back-off until the verification cfg's attempts are used up, an Ok (or a merged split) returns at once
ReadAnswer(a) == /\ pc = "Verify" /\ cfg.verif \in {"Network", "Crdt"}
                 /\ Len(cur.reads) < cfg.gnatt
                 /\ (a = "OkOther" => ~cfg.target) /\ (a = "RecordDoesNotMatch" => cfg.target)
                 /\ cur' = [cur EXCEPT !.reads = Append(@, [a |-> a, q |-> cfg.gq, tgt |-> TRUE, n |-> 0])]
                 /\ pc' = IF a \in ReadOk \/ Len(cur.reads) + 1 = cfg.gnatt THEN "EndAttempt" ELSE "Verify"
                 /\ UNCHANGED <<cfg, done, res>>
\* one round of verify_chunk_existence: n close nodes asked, v of them return a proof that verifies
ProofRound(n, v) == /\ pc = "Verify" /\ cfg.verif = "ChunkProof"
                    /\ Len(cur.proofs) < cfg.gnatt
                    /\ cur' = [cur EXCEPT !.proofs = Append(@, [n |-> n, v |-> v])]
                    /\ pc' = IF v >= QV(cfg.gq) \/ Len(cur.proofs) + 1 = cfg.gnatt THEN "EndAttempt" ELSE "Verify"
                    /\ UNCHANGED <<cfg, done, res>>
ModelError(a) == IF Variant = "ignoreverify" THEN ReplyErr(a) ELSE AttemptError(cfg, a)
EndAttempt == /\ pc = "EndAttempt"
              /\ done' = Append(done, cur)
              /\ LET e == ModelError(cur) IN
                 IF e = "" THEN res' = Ok0 /\ pc' = "Done"
                 ELSE IF Len(done) + 1 < cfg.natt THEN res' = res /\ pc' = "Backoff"
                 ELSE res' = ErrR(e) /\ pc' = "Done"
              /\ UNCHANGED <<cfg, cur>>
Backoff == pc = "Backoff" /\ pc' = "Issue" /\ UNCHANGED <<cfg, cur, done, res>>

(***************************************************************************)
(* Clauses (documented intent), over a finished call c.                    *)
(***************************************************************************)
LastAtt(c) == Last(c.att)
IsOk(c) == c.res.kind = "Ok"

\* the verification of attempt a showed the record to be stored (the expected-value part is C05_PutVerifyTarget)
VerifiedBy(k, a) ==
    CASE k.verif = "None" -> TRUE
      [] k.verif = "ChunkProof" -> a.proofs # <<>> /\ Last(a.proofs).v >= QV(k.gq)
      [] k.verif = "Network" -> a.reads # <<>> /\ Last(a.reads).a \in ReadOk
      [] k.verif = "Crdt" -> a.reads # <<>> /\ Last(a.reads).a \in ReadOk \cup {"Split"}

\* Ok only if, in the LAST attempt, the put was acknowledged Ok and the verification succeeded
Put_OkOnlyIfVerified(c) ==
    IsOk(c) => c.att # <<>> /\ LastAtt(c).reply = "Ok" /\ VerifiedBy(c.cfg, LastAtt(c))

\* (C05: "...and it equals the caller's expected value when one was given".)  With a read-back against an
\* expected value, Ok only if the last read, asked with the configured quorum and that expected value, returned a
\* value equal to it (mode 2: at least the quorum of distinct peers returned those bytes under the key); a split is
\* tolerated under CRDT verification only.
TargetRead(c, r) == /\ r.q = c.cfg.gq /\ r.tgt
                    /\ \/ r.a = "OkMatch" /\ (c.mode = 2 => r.n >= QV(c.cfg.gq))
                       \/ c.cfg.verif = "Crdt" /\ r.a \in {"Split", "SplitMerge"}
C05_PutVerifyTarget(c) ==
    (c.cfg.verif \in {"Network", "Crdt"} /\ c.cfg.target /\ IsOk(c)) =>
        c.att # <<>> /\ LastAtt(c).reads # <<>> /\ TargetRead(c, Last(LastAtt(c).reads))

\* number of PutRecord commands = 1 + retries taken <= attempts of the retry strategy
Put_AttemptsBounded(c) == Len(c.att) >= 1 /\ Len(c.att) <= c.cfg.natt

\* every attempt sends the same record, the configured quorum, to the configured peers
Put_RecordUnchanged(c) ==
    \A i \in 1..Len(c.att) : LET a == c.att[i] IN
        /\ a.same /\ a.q = c.cfg.pq
        /\ a.cmd = (IF c.cfg.to THEN "PutRecordTo" ELSE "PutRecord")
        /\ (c.cfg.to => a.peersok)

\* an error returned is the error of the last attempt, returned once the attempts are used up; every earlier
\* attempt failed too
Put_ErrorIsLast(c) ==
    ~IsOk(c) => /\ c.att # <<>> /\ c.res.e = AttemptError(c.cfg, LastAtt(c))
                /\ Len(c.att) = c.cfg.natt
Put_RetryOnlyAfterFailure(c) == \A i \in 1..(Len(c.att) - 1) : AttemptError(c.cfg, c.att[i]) # ""

\* a split read-back is tolerated for CRDT verification -- and only for it
EndsInSplit(a) == a.reads # <<>> /\ Last(a.reads).a = "Split"
Put_CrdtSplitTolerated(c) ==
    (c.att # <<>> /\ EndsInSplit(LastAtt(c))) =>
        IF c.cfg.verif = "Crdt" THEN (LastAtt(c).reply = "Ok" => IsOk(c))
        ELSE c.res = ErrR("Split")

\* RecordNotFound at the read-back <=> RecordNotStoredByNodes is returned
Put_NotFoundMapped(c) ==
    LET nf == c.att # <<>> /\ LastAtt(c).reads # <<>> /\ Last(LastAtt(c).reads).a = "NotFound" IN
    /\ (nf => c.res = ErrR("RecordNotStoredByNodes"))
    /\ (c.res.e = "RecordNotStoredByNodes" => nf)
    /\ c.res.e # "NotFound"

\* the verification read loop: bounded by the verification cfg's attempts, nothing is asked after an Ok
Put_ReadLoopBounded(c) ==
    \A i \in 1..Len(c.att) : LET a == c.att[i] IN
        /\ Len(a.reads) <= c.cfg.gnatt /\ Len(a.proofs) <= c.cfg.gnatt
        /\ \A j \in 1..(Len(a.reads) - 1) : a.reads[j].a \notin ReadOk
        /\ \A j \in 1..(Len(a.proofs) - 1) : a.proofs[j].v < QV(c.cfg.gq)
        /\ (c.cfg.verif = "None" => a.reads = <<>> /\ a.proofs = <<>>)

\* each PutRecord / PutRecordTo command's sender gets exactly one reply
Put_ExactlyOneReply(c) == \A i \in 1..Len(c.att) : c.att[i].nrep = 1

Clauses == {"Put_OkOnlyIfVerified", "C05_PutVerifyTarget", "Put_AttemptsBounded", "Put_RecordUnchanged", "Put_ErrorIsLast",
            "Put_RetryOnlyAfterFailure", "Put_CrdtSplitTolerated", "Put_NotFoundMapped", "Put_ReadLoopBounded",
            "Put_ExactlyOneReply"}
Holds(name, c) ==
    CASE name = "Put_OkOnlyIfVerified" -> Put_OkOnlyIfVerified(c)
      [] name = "C05_PutVerifyTarget" -> C05_PutVerifyTarget(c)
      [] name = "Put_AttemptsBounded" -> Put_AttemptsBounded(c)
      [] name = "Put_RecordUnchanged" -> Put_RecordUnchanged(c)
      [] name = "Put_ErrorIsLast" -> Put_ErrorIsLast(c)
      [] name = "Put_RetryOnlyAfterFailure" -> Put_RetryOnlyAfterFailure(c)
      [] name = "Put_CrdtSplitTolerated" -> Put_CrdtSplitTolerated(c)
      [] name = "Put_NotFoundMapped" -> Put_NotFoundMapped(c)
      [] name = "Put_ReadLoopBounded" -> Put_ReadLoopBounded(c)
      [] name = "Put_ExactlyOneReply" -> Put_ExactlyOneReply(c)

\* Listed known finding C05-merge-bypasses-target: get_record_from_network returns a merged split without
\* comparing it with target_record, so a put verified against an expected value succeeds on the merge.
KF_Merge == "C05-merge-bypasses-target"
KfOf(name, c) == IF /\ name = "C05_PutVerifyTarget" /\ c.att # <<>> /\ LastAtt(c).reads # <<>>
                    /\ Last(LastAtt(c).reads).a = "SplitMerge" /\ c.cfg.verif = "Network"
                 \* (whatever the PUT's own reply was: what is wrong about the READ is the listed finding; an Ok that ignores
                 \* the PUT's reply is Put_OkOnlyIfVerified's business -- selftest/mutations_putrecord.json "reply dropped")
                 THEN KF_Merge ELSE ""
Verdicts(c) == {[clause |-> name, kf |-> KfOf(name, c)] : name \in {n \in Clauses : ~Holds(n, c)}}
=============================================================================
