SPECIFICATION Spec
CONSTANTS
  CGS = 5
  Variant = "ignoreverify"
  NattSet = {1, 2}
  GnattSet = {1, 2}
  GqSet = {"One", "Maj", "All"}
  GqRead = {"Maj"}
  PqSet = {"All"}
  VerifSet = {"None", "Network", "Crdt", "ChunkProof"}
  NClose = 7
  Record = FALSE
  KnownMask = {"C05-merge-bypasses-target"}
INVARIANTS NoClauseFalsified ModelHasItsShape
CHECK_DEADLOCK FALSE
