---------------------------- MODULE NodePutTrace ----------------------------
(***************************************************************************)
(* Trace specification for C03 / C04 / C07: each line is one delivery to   *)
(* the REAL node (validate_and_store_record, store_replicated_in_record or *)
(* RecordStore::put, run to completion with every store command served and *)
(* every disk write settled), with the abstract attributes of the delivery *)
(* (as the driver built it), the result, and the content the node holds    *)
(* under the presented and the derived key before and after, decoded by    *)
(* the driver with its own derivations.  Deterministic: verdict = clauses  *)
(* of NodePut.tla false on the step.                                       *)
(***************************************************************************)
EXTENDS NodePut, TLC, Json, IOUtils, SequencesExt

Rec == ndJsonDeserialize(IOEnv.TRACE)
N == Len(Rec)

VARIABLES l, viol, stats, last
vars == <<l, viol, stats, last>>

SetOf(seq) == {seq[i] : i \in 1..Len(seq)}
Content(j) == CASE j.kind = "none" -> [kind |-> "none"]
                [] j.kind = "chunk" -> [kind |-> "chunk"]
                [] j.kind = "pad" -> [kind |-> "pad", c |-> j.c, content |-> j.content]
                [] j.kind = "txs" -> [kind |-> "txs", ids |-> SetOf(j.ids)]
                [] j.kind = "reg" -> [kind |-> "reg", ops |-> SetOf(j.ops)]
                [] OTHER -> [kind |-> j.kind]
DeliveryOf(j) == [path |-> j.path, kind |-> j.kind, keyOk |-> j.keyOk, heldIdx |-> j.heldIdx, parse |-> j.parse,
                  pay |-> [sigs |-> j.pay.sigs, self |-> j.pay.self, close |-> j.pay.close, fresh |-> j.pay.fresh,
                           chain |-> j.pay.chain, addr |-> j.pay.addr, mode |-> j.pay.mode, shape |-> j.pay.shape],
                  pad |-> [c |-> j.pad.c, sig |-> j.pad.sig, content |-> j.pad.content],
                  txs |-> {[id |-> j.txs[i].id, ok |-> j.txs[i].ok] : i \in 1..Len(j.txs)},
                  ops |-> {[id |-> j.ops[i].id, ok |-> j.ops[i].ok] : i \in 1..Len(j.ops)}]
StepOf(e) == [d |-> DeliveryOf(e.d), res |-> e.res, beforeD |-> Content(e.aBeforeD), afterD |-> Content(e.aAfterD),
              beforeP |-> Content(e.aBeforeP), afterP |-> Content(e.aAfterP), gained |-> SetOf(e.gained), lost |-> SetOf(e.lost),
              derivedOK |-> e.derivedOK, contentOK |-> e.contentOK, unverified |-> e.unverified,
              unvSame |-> e.unvSame, viaKad |-> e.viaKad, exp |-> e.exp, calls |-> e.calls]

\* gated runs (disk writes of a whole sequence parked, the index lagging): only the C07 clauses apply
GatedClauses == {"C07_Applied", "C07_ScratchpadMonotone", "C07_GrowOnly", "C07_OnlyValid", "C04_StoredUnderDerivedKey"}
Init == l = 1 /\ viol = {} /\ stats = [deliveries |-> 0, accepted |-> 0, changed |-> 0] /\ last = [kind |-> "none"]
Next == /\ l <= N
        /\ l' = l + 1
        /\ LET e == Rec[l] IN
           IF e.ev = "Reset" THEN UNCHANGED <<viol, stats, last>>
           ELSE IF e.ev = "Settled" THEN
                \* once the parked disk work has run, the node holds what it held after the last delivery
                /\ viol' = viol \cup (IF Content(e.aAfterD) = last /\ e.contentOK /\ (last.kind # "none" => e.listed) THEN {}
                                     ELSE {[clause |-> "C07_SettledSame", line |-> l]})
                /\ UNCHANGED <<stats, last>>
           ELSE IF e.ev # "Deliver" THEN viol' = viol \cup {[clause |-> "Malformed", line |-> l]} /\ UNCHANGED <<stats, last>>
           ELSE LET x == StepOf(e) IN
                /\ last' = x.afterD
                /\ viol' = viol \cup {[clause |-> c, line |-> l] : c \in (IF e.src = "tlc-gated" THEN FalsifiedBy(x) \cap GatedClauses ELSE FalsifiedBy(x))}
                /\ stats' = [deliveries |-> stats.deliveries + 1,
                             accepted |-> stats.accepted + (IF e.res = "Ok" THEN 1 ELSE 0),
                             changed |-> stats.changed + (IF x.afterD # x.beforeD THEN 1 ELSE 0)]
Spec == Init /\ [][Next]_vars
Report == l = N + 1 => ndJsonSerialize(IOEnv.OUT, << [lines |-> N, violations |-> SetToSeq(viol), stats |-> stats] >>)
=============================================================================
