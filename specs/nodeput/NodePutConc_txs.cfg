SPECIFICATION Spec
CONSTANTS
  Family = "txs"
  KnownMask = {"C07-concurrent-read-check-write"}
INVARIANTS C07_ConcurrentResult Emit
CHECK_DEADLOCK FALSE
