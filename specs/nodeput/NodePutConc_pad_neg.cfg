SPECIFICATION Spec
CONSTANTS
  Family = "pad"
  KnownMask = {}
INVARIANTS FindingExists
CHECK_DEADLOCK FALSE
