SPECIFICATION Spec
CONSTANTS
  SeqLen = 3
  Families = {"pad", "txs", "reg"}
INVARIANTS ModelKeepsC07 PadIsHighestValid Emit
CHECK_DEADLOCK FALSE
