SPECIFICATION Spec
CONSTANTS
  KnownMask = {"C07-concurrent-read-check-write"}
INVARIANT Report
CHECK_DEADLOCK FALSE
