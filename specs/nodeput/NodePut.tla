------------------------------- MODULE NodePut -------------------------------
(***************************************************************************)
(* Acceptance of records by a node (properties C03, C04, C07).             *)
(*                                                                         *)
(* A delivery d reaches the node on one of three paths                     *)
(*   "client"  validate_and_store_record  (paid upload or unpaid update)   *)
(*   "repl"    store_replicated_in_record (copy fetched from a neighbour)  *)
(*   "kadput"  RecordStore::put           (raw kad entry point)            *)
(* and carries abstract attributes (the driver builds the real bytes):     *)
(*   kind    wire kind (8 kinds)              keyOk  presented under the   *)
(*   pay     the six payment conditions              key its content gives *)
(*           (or "none")                      parse  ok / truncated / ...  *)
(*   pad     [c, sig \in {"ok","bad","bumped"}, content]                    *)
(*   txs     set of [id, ok]   (ok: validly signed by the address owner)   *)
(*   ops     set of [id, ok]   (ok: signed by a permitted writer)          *)
(* The node's content for the delivery's address is                        *)
(*   [kind |-> "none"] | [kind |-> "chunk"] | [kind |-> "pad", c, content] *)
(*   | [kind |-> "txs", ids] | [kind |-> "reg", ops]                       *)
(*                                                                         *)
(* `Allowed(d, before)` is the set of outcomes [res, after] the statements *)
(* of C03/C04/C07 permit; where a statement leaves a choice (e.g. whether a*)
(* register carrying one bad operation is refused as a whole) both choices *)
(* are in the set.  The clause operators name which property an observed   *)
(* outcome outside the set falsifies.                                      *)
(***************************************************************************)
EXTENDS Naturals, FiniteSets, Sequences

PaidKinds == {"ChunkWithPayment", "ScratchpadWithPayment", "TransactionWithPayment", "RegisterWithPayment"}
UnpaidKinds == {"Chunk", "Scratchpad", "Transaction", "Register"}
Base(kind) == CASE kind \in {"Chunk", "ChunkWithPayment"} -> "chunk"
                [] kind \in {"Scratchpad", "ScratchpadWithPayment"} -> "pad"
                [] kind \in {"Transaction", "TransactionWithPayment"} -> "txs"
                [] kind \in {"Register", "RegisterWithPayment"} -> "reg"

\* bytes that do not decode as the kind they announce (an oversized record still decodes: the size limit
\* applies where records enter from the network, RecordStore::put)
Unparseable(d) == d.parse \in {"trunc", "header1", "unknownkind", "garbage"}

NoneC == [kind |-> "none"]
Held(c) == c.kind # "none"

\* ---- the six payment conditions.  A proof p carries, besides the six booleans,
\*   mode    how the payment contract answers verifyPayment for the proof's quotes:
\*           "ok" every quote valid and paid | "allBad" none | "ownBadOnly" only this node's quote invalid |
\*           "otherBadOnly" only another payee's quote invalid | "ownAmountZero" this node's quote valid, amount paid 0 |
\*           "jsonrpcError" "http500" "emptyResult" "shortData" "closeSocket": the contract cannot be asked / answers garbage
\*   shape   "std" three payees, one quote each | a payee listed twice | two quotes of this node | "n1" "n2" "n4" "n5" quotes
\*   pos, selfIdx, edge: WHERE in the proof the failing quote / this node's quote / the farthest payee sit (no semantic weight)
\* "the payment is confirmed by the payment contract" (C03).  What the node can learn from the contract is the answer of
\* verifyPayment: three results (quoteHash, amountPaid, isValid).  evmlib's verify_data_payment takes the payment as
\* confirmed iff every result the contract returns is valid, and only REPORTS the amount paid to this node's own quotes;
\* the client of this code base pays three of five quoted nodes and uploads to all five (autonomi/src/client/quote.rs),
\* so "valid, nothing paid to me" is an answer the protocol produces for honest uploads.  Hence:
\*   p.chain = FALSE (definitely NOT confirmed): the contract reports this node's own quote invalid, or every quote invalid,
\*             or gives no usable answer at all -- nothing may be stored;
\*   p.chain = TRUE and mode "ok" on a three-quote proof: confirmed;
\*   OPEN (the statement does not decide; either outcome is accepted): only ANOTHER payee's quote is invalid; this node's
\*             quote is valid with amount 0; proofs with 1, 2, 4 or 5 quotes (the contract answers for three of them only).
PayBad(p) == ~p.sigs \/ ~p.self \/ ~p.close \/ ~p.fresh \/ ~p.chain \/ ~p.addr
OpenModes == {"otherBadOnly", "ownAmountZero"}
OpenShapes == {"n1", "n2", "n4", "n5"}
PayOpen(p) == ~PayBad(p) /\ (p.mode \in OpenModes \/ p.shape \in OpenShapes)
PayOk(p) == ~PayBad(p) /\ ~PayOpen(p)

\* Is the delivery entitled to create / update content at its address, leaving the content's own
\* validity aside?  (C03: new data from a client only with a fully valid payment; unpaid uploads only
\* as updates of mutable records already held; replication needs no payment.)
\* d.heldIdx: the node's index lists the address (the node's own notion of "already holds", I9); it can
\* lag behind `before` while an accepted write has not been acknowledged yet.
Entitled(d, before) ==
    CASE d.path = "repl" -> d.kind \in UnpaidKinds
      [] d.path = "client" /\ d.kind \in PaidKinds ->
            \* a record already held may be updated by an upload whose payment fails, for the mutable kinds
            PayOk(d.pay) \/ (d.heldIdx /\ Base(d.kind) \in {"txs", "reg"})
      [] d.path = "client" /\ d.kind \in {"Scratchpad", "Register"} -> d.heldIdx
      [] OTHER -> FALSE

\* the statement leaves open whether this upload's payment counts as confirmed
MaybeEntitled(d, before) == d.path = "client" /\ d.kind \in PaidKinds /\ PayOpen(d.pay)

GoodTxs(d) == {t.id : t \in {x \in d.txs : x.ok}}
GoodOps(d) == {o.id : o \in {x \in d.ops : x.ok}}
AllOpsGood(d) == \A o \in d.ops : o.ok

\* content after applying the delivery's valid part to `before` (C07)
Applied(d, before) ==
    CASE Base(d.kind) = "chunk" -> {IF Held(before) THEN before ELSE [kind |-> "chunk"]}
      [] Base(d.kind) = "pad" ->
            IF d.pad.sig = "ok" /\ (~Held(before) \/ d.pad.c > before.c)
            THEN {[kind |-> "pad", c |-> d.pad.c, content |-> d.pad.content]}
            ELSE {before}
      [] Base(d.kind) = "txs" ->
            LET old == IF Held(before) THEN before.ids ELSE {} IN
            IF GoodTxs(d) = {} THEN {before}
            ELSE {[kind |-> "txs", ids |-> old \cup GoodTxs(d)]}
      [] Base(d.kind) = "reg" ->
            LET old == IF Held(before) THEN before.ops ELSE {} IN
            \* a register carrying an operation that does not verify may be refused as a whole
            IF AllOpsGood(d) THEN {[kind |-> "reg", ops |-> old \cup GoodOps(d)]}
            ELSE {before, [kind |-> "reg", ops |-> old \cup GoodOps(d)]}

\* the contents the statements permit after the delivery
\* the address already holds a record of ANOTHER family (a scratchpad and the transactions of one owner share
\* an address, and so does a chunk whose bytes are that owner's public key): a stored scratchpad stays a
\* scratchpad, a stored transaction set only grows, immutable data stays -- such a delivery changes nothing
CrossKind(d, before) == Held(before) /\ before.kind # Base(d.kind)
Allowed(d, before) ==
    IF Unparseable(d) \/ ~d.keyOk \/ d.path = "kadput" \/ CrossKind(d, before) THEN {before}
    ELSE IF Entitled(d, before) THEN Applied(d, before)
    ELSE IF MaybeEntitled(d, before) THEN {before} \cup Applied(d, before)
    ELSE {before}

\* ---------------------------------------------------------------------- observed step
\* x: [d, res ("Ok" | "Err..."), beforeD, afterD (content under the derived key), beforeP, afterP (content
\*     under the presented key, = the D fields when keyOk), gained (keys newly listed), lost (keys no
\*     longer listed), derivedOK (every stored entry's own derived key equals the key it is stored under),
\*     contentOK (stored pads / transactions / operations all verify and no entry is stored twice),
\*     unverified (events emitted by put), unvSame (each of them carries the presented record, key and bytes),
\*     viaKad (a "client" delivery that entered through RecordStore::put and was validated from its event),
\*     exp (what the contract must be asked: one digest of (quote hash, metrics words, rewards address) per quote of
\*     the proof, in order, computed by the driver on its own), calls (what the contract WAS asked, per call, same digests)]
IsErr(res) == res # "Ok"

\* C03 -------------------------------------------------------------------
\* "persists data uploaded by a client at an address it does not yet hold only if <six conditions>"
C03_PaidOnly(x) ==
    (x.d.path = "client" /\ (x.gained # {} \/ (~Held(x.beforeD) /\ Held(x.afterD)))) =>
        /\ x.d.kind \in PaidKinds /\ ~PayBad(x.d.pay) /\ x.d.keyOk /\ ~Unparseable(x.d)
\* "if any one of these fails, nothing is stored and the upload is rejected"
C03_RejectOtherwise(x) ==
    (x.d.path = "client" /\ x.d.kind \in PaidKinds /\ ~Held(x.beforeD) /\ PayBad(x.d.pay)) =>
        /\ IsErr(x.res) /\ x.afterD = x.beforeD /\ x.gained = {} /\ x.lost = {}
\* "the payment is confirmed by the payment contract": data newly stored from a paid upload => the contract was asked, and
\* asked about exactly this proof -- every quote's hash, metrics and rewards address, in the proof's order
NewlyStored(x) == x.gained # {} \/ (~Held(x.beforeD) /\ Held(x.afterD))
C03_ContractSawProof(x) ==
    (x.d.path = "client" /\ x.d.kind \in PaidKinds /\ NewlyStored(x)) =>
        /\ Len(x.calls) >= 1
        /\ \A i \in 1..Len(x.calls) : x.calls[i] = x.exp
\* "uploads without payment are accepted only as updates to mutable records the node already holds"
C03_UnpaidOnlyUpdates(x) ==
    (x.d.path = "client" /\ x.d.kind \in UnpaidKinds) =>
        /\ x.gained = {}
        /\ (x.d.kind \in {"Chunk", "Transaction"} => IsErr(x.res) /\ x.afterD = x.beforeD)
        /\ (~Held(x.beforeD) => IsErr(x.res) /\ x.afterD = x.beforeD)
        \* replacing a held record of another family is not an update of it
        /\ (Held(x.beforeD) /\ x.beforeD.kind # Base(x.d.kind) => IsErr(x.res) /\ x.afterD = x.beforeD)

\* C04 -------------------------------------------------------------------
\* "the record is stored only under the key its content determines"
C04_StoredUnderDerivedKey(x) == x.derivedOK
\* "a record presented under any other key is rejected and nothing changes"
C04_MismatchRejected(x) ==
    (~x.d.keyOk /\ x.d.path # "kadput") =>
        /\ IsErr(x.res) /\ x.afterD = x.beforeD /\ x.afterP = x.beforeP /\ x.gained = {} /\ x.lost = {}
\* "records arriving from the network are never readable before validation has accepted them, and
\*  oversized or unparseable ones are refused"
C04_NotReadableBeforeValidation(x) ==
    x.d.path = "kadput" =>
        /\ x.afterD = x.beforeD /\ x.afterP = x.beforeP /\ x.gained = {} /\ x.lost = {}
        /\ (x.d.parse \in {"oversize", "max"} => IsErr(x.res) /\ x.unverified = 0)
        /\ (x.d.parse \in {"trunc", "header1", "unknownkind"} => x.unverified = 0)
\* what validation gets to see is the record that arrived, once
C04_ValidatesPresentedRecord(x) ==
    (x.d.path = "kadput" \/ x.viaKad) => x.unverified <= 1 /\ x.unvSame
C04_UnparseableRefused(x) ==
    (x.d.path # "kadput" /\ Unparseable(x.d)) => IsErr(x.res) /\ x.afterD = x.beforeD /\ x.gained = {}

\* C07 -------------------------------------------------------------------
\* the content after the delivery is one the statements allow
C07_Applied(x) == (x.d.path # "kadput" /\ x.d.keyOk) => x.afterD \in Allowed(x.d, x.beforeD)
\* "a stored scratchpad always carries a valid owner signature and its counter never decreases"
C07_ScratchpadMonotone(x) ==
    /\ x.contentOK
    /\ (x.beforeD.kind = "pad" => x.afterD.kind = "pad" /\ x.afterD.c >= x.beforeD.c)
\* "a stored transaction set or register only ever grows"
C07_GrowOnly(x) ==
    /\ (x.beforeD.kind = "txs" => x.afterD.kind = "txs" /\ x.beforeD.ids \subseteq x.afterD.ids)
    /\ (x.beforeD.kind = "reg" => x.afterD.kind = "reg" /\ x.beforeD.ops \subseteq x.afterD.ops)
\* "entries with invalid signatures or belonging to another address are never stored"
C07_OnlyValid(x) ==
    /\ x.contentOK
    /\ (x.afterD.kind = "txs" => x.afterD.ids \subseteq ((IF x.beforeD.kind = "txs" THEN x.beforeD.ids ELSE {}) \cup GoodTxs(x.d)))
    /\ (x.afterD.kind = "reg" => x.afterD.ops \subseteq ((IF x.beforeD.kind = "reg" THEN x.beforeD.ops ELSE {}) \cup GoodOps(x.d)))

\* replicated (unpaid) deliveries used by the concurrent model
D0base == [path |-> "repl", kind |-> "Scratchpad", keyOk |-> TRUE, heldIdx |-> TRUE, pay |-> "none", parse |-> "ok",
           pad |-> [c |-> 1, sig |-> "ok", content |-> 10], txs |-> {}, ops |-> {}]
D0pad == D0base
D0txs == [D0base EXCEPT !.kind = "Transaction"]
D0reg == [D0base EXCEPT !.kind = "Register"]

Clauses == {"C03_PaidOnly", "C03_RejectOtherwise", "C03_UnpaidOnlyUpdates", "C03_ContractSawProof", "C04_StoredUnderDerivedKey",
            "C04_MismatchRejected", "C04_NotReadableBeforeValidation", "C04_UnparseableRefused", "C04_ValidatesPresentedRecord",
            "C07_Applied", "C07_ScratchpadMonotone", "C07_GrowOnly", "C07_OnlyValid"}
Holds(c, x) == CASE c = "C03_PaidOnly" -> C03_PaidOnly(x)
                 [] c = "C03_RejectOtherwise" -> C03_RejectOtherwise(x)
                 [] c = "C03_UnpaidOnlyUpdates" -> C03_UnpaidOnlyUpdates(x)
                 [] c = "C03_ContractSawProof" -> C03_ContractSawProof(x)
                 [] c = "C04_ValidatesPresentedRecord" -> C04_ValidatesPresentedRecord(x)
                 [] c = "C04_StoredUnderDerivedKey" -> C04_StoredUnderDerivedKey(x)
                 [] c = "C04_MismatchRejected" -> C04_MismatchRejected(x)
                 [] c = "C04_NotReadableBeforeValidation" -> C04_NotReadableBeforeValidation(x)
                 [] c = "C04_UnparseableRefused" -> C04_UnparseableRefused(x)
                 [] c = "C07_Applied" -> C07_Applied(x)
                 [] c = "C07_ScratchpadMonotone" -> C07_ScratchpadMonotone(x)
                 [] c = "C07_GrowOnly" -> C07_GrowOnly(x)
                 [] c = "C07_OnlyValid" -> C07_OnlyValid(x)
FalsifiedBy(x) == {c \in Clauses : ~Holds(c, x)}
=============================================================================
