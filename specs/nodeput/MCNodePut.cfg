SPECIFICATION Spec
CONSTANTS
  SeqLen = 2
  Families = {"pad", "txs", "reg"}
INVARIANTS ModelKeepsC07 PadIsHighestValid Emit
CHECK_DEADLOCK FALSE
