------------------------------ MODULE MCNodePut ------------------------------
(***************************************************************************)
(* Enumeration harness for NodePut.                                        *)
(*  - C03/C04: every (paid kind x 2^6 payment conditions x key ok/other x  *)
(*    held/not held), every unpaid kind x path x key x held, every parse   *)
(*    class on every path: one scenario each (a set-up delivery first when *)
(*    the address must already be held).                                   *)
(*    Plus (one condition at a time): the failing quote / this node's     *)
(*    quote at every position, per-quote contract verdicts and a failing  *)
(*    contract, payees at the edge of the K closest, duplicated payees,   *)
(*    two own quotes, 1/2/4/5 quotes (ExtCases); the way in through       *)
(*    RecordStore::put + validation (KadValidateCases); the size limit on *)
(*    both sides (SizeCases); entries tampered with after signing.        *)
(*  - C07: every sequence of up to SeqLen deliveries for ONE address drawn *)
(*    from a pool of scratchpad / transaction / register variants on the   *)
(*    three admissible paths.                                              *)
(* TLC runs the model (contents evolve by `Allowed`) and checks the        *)
(* C07 statements on the model itself; the case list is written for the   *)
(* driver.                                                                 *)
(***************************************************************************)
EXTENDS NodePut, TLC, Json, IOUtils, SequencesExt

CONSTANTS SeqLen, Families

BOOL == {TRUE, FALSE}
\* forge: HOW a quote fails to be "authentically signed by its claimed node" when sigs = FALSE --
\*   "sig": it carries the claimed node's key and a signature made with another key;
\*   "key": it is a self-consistent quote of ANOTHER node (own key, own valid signature) listed under the claimed node
\* mode / pos / selfIdx / shape / edge: see NodePut.tla (PayBad) and nodeworld.rs (PayX); the 2^6 enumeration uses the plain
\* layout (three payees, this node's quote first, contract all-valid or all-invalid)
Ext(p) == p @@ [mode |-> IF p.chain THEN "ok" ELSE "allBad", pos |-> "std", selfIdx |-> 0, shape |-> "std", edge |-> "std"]
Pays == {Ext(p) : p \in {q \in [sigs : BOOL, self : BOOL, close : BOOL, fresh : BOOL, chain : BOOL, addr : BOOL, forge : {"sig", "key"}] :
            q.sigs => q.forge = "sig"}}
OkPay == Ext([sigs |-> TRUE, self |-> TRUE, close |-> TRUE, fresh |-> TRUE, chain |-> TRUE, addr |-> TRUE, forge |-> "sig"])
NoPay == "none"

\* ---- one condition at a time, in every position of the proof
\* the contract's answer per quote, and the contract failing; this node's quote first or last
ChainPays == {[OkPay EXCEPT !.mode = m, !.chain = (m \in OpenModes), !.selfIdx = i] :
                 m \in {"ownBadOnly", "otherBadOnly", "ownAmountZero", "jsonrpcError", "http500", "emptyResult", "shortData", "closeSocket"}, i \in {0, 2}}
        \cup {[OkPay EXCEPT !.mode = m, !.chain = (m = "ok"), !.selfIdx = i] : m \in {"ok", "allBad"}, i \in {1, 2}}
\* the expired / forged / far quote is this node's own, the first or the last other payee's; this node's quote at index 0, 1, 2
PosPays == {[OkPay EXCEPT !.fresh = FALSE, !.pos = po, !.selfIdx = i] : po \in {"own", "otherFirst", "otherLast"}, i \in 0..2}
      \cup {[OkPay EXCEPT !.sigs = FALSE, !.forge = f, !.pos = po, !.selfIdx = i] : f \in {"sig", "key"}, po \in {"own", "otherFirst", "otherLast"}, i \in 0..2}
      \cup {[OkPay EXCEPT !.close = FALSE, !.pos = po, !.selfIdx = i] : po \in {"otherFirst", "otherLast"}, i \in 0..2}
      \cup {[OkPay EXCEPT !.addr = FALSE, !.selfIdx = i] : i \in 1..2}
\* the farthest payee at the edge of the K closest peers: the 19th closest known peer is close, the 20th and 21st are not
EdgePays == {[OkPay EXCEPT !.edge = "in19", !.selfIdx = i] : i \in {0, 2}}
       \cup {[OkPay EXCEPT !.edge = e, !.close = FALSE, !.selfIdx = i] : e \in {"out20", "out21"}, i \in {0, 2}}
\* a payee listed twice with an authentic and a forged quote (either order); two quotes of this node, one of them for another
\* address or expired (either order); proofs with 1, 2, 4, 5 quotes (this node's first / last)
ShapePays == {[OkPay EXCEPT !.shape = sh, !.sigs = FALSE, !.forge = f, !.selfIdx = i] : sh \in {"dupAuthFirst", "dupForgedFirst"}, f \in {"sig", "key"}, i \in {0, 2}}
        \cup {[OkPay EXCEPT !.shape = sh, !.addr = FALSE, !.selfIdx = i] : sh \in {"twoOwnGoodFirst", "twoOwnBadFirst"}, i \in {0, 1}}
        \cup {[OkPay EXCEPT !.shape = sh, !.fresh = FALSE, !.selfIdx = i] : sh \in {"twoOwnGoodFirst", "twoOwnBadFirst"}, i \in {0, 1}}
        \cup {[OkPay EXCEPT !.shape = c[1], !.selfIdx = c[2], !.mode = m, !.chain = (m = "ok")] :
                  c \in {<<"n1", 0>>, <<"n2", 0>>, <<"n2", 1>>, <<"n4", 0>>, <<"n4", 3>>, <<"n5", 0>>, <<"n5", 4>>}, m \in {"ok", "allBad"}}
        \cup {[OkPay EXCEPT !.shape = "n5", !.selfIdx = 4, !.fresh = FALSE, !.pos = "own"], [OkPay EXCEPT !.shape = "n4", !.selfIdx = 3, !.addr = FALSE],
               [OkPay EXCEPT !.shape = "n5", !.selfIdx = 4, !.sigs = FALSE, !.pos = "otherLast"]}
ExtPays == ChainPays \cup PosPays \cup EdgePays \cup ShapePays

D0 == [path |-> "client", kind |-> "Chunk", keyOk |-> TRUE, heldIdx |-> FALSE, pay |-> NoPay, parse |-> "ok",
       pad |-> [c |-> 1, sig |-> "ok", content |-> 1], txs |-> {[id |-> 1, ok |-> TRUE]}, ops |-> {[id |-> 1, ok |-> TRUE]}]

\* set-up delivery that makes the address held (a fully paid upload of the same family)
Setup(kind) == [D0 EXCEPT !.kind = CASE Base(kind) = "chunk" -> "ChunkWithPayment" [] Base(kind) = "pad" -> "ScratchpadWithPayment"
                                        [] Base(kind) = "txs" -> "TransactionWithPayment" [] Base(kind) = "reg" -> "RegisterWithPayment",
                           !.pay = OkPay]
\* the tested delivery differs from the set-up in its payload (counter 2 / another transaction / another op)
Probe(kind) == [D0 EXCEPT !.kind = kind, !.pad = [c |-> 2, sig |-> "ok", content |-> 2],
                          !.txs = {[id |-> 2, ok |-> TRUE]}, !.ops = {[id |-> 2, ok |-> TRUE]}]

C03Cases == {<<held, [Probe(k) EXCEPT !.pay = p, !.keyOk = ko]>> : held \in BOOL, k \in PaidKinds, p \in Pays, ko \in BOOL}
       \cup {<<held, [Probe(k) EXCEPT !.keyOk = ko, !.path = pa]>> : held \in BOOL, k \in UnpaidKinds, ko \in BOOL, pa \in {"client", "repl"}}
\* (the payment check is one function shared by the four paid kinds; what each kind does with its verdict is covered by
\* the 2^6 enumeration: every layout on the two kinds that treat the verdict differently, the contract's answers on all)
ExtCases == {<<FALSE, [Probe(k) EXCEPT !.pay = p]>> : k \in {"ChunkWithPayment", "RegisterWithPayment"}, p \in ExtPays}
       \cup {<<FALSE, [Probe(k) EXCEPT !.pay = p]>> : k \in {"ScratchpadWithPayment", "TransactionWithPayment"}, p \in ChainPays}
\* the whole way in from the network: RecordStore::put, then validation of the record its event carries ("kadput+validate",
\* judged like "client")
OneBadPays == {[OkPay EXCEPT !.sigs = FALSE], [OkPay EXCEPT !.self = FALSE], [OkPay EXCEPT !.close = FALSE], [OkPay EXCEPT !.fresh = FALSE],
               [OkPay EXCEPT !.chain = FALSE, !.mode = "allBad"], [OkPay EXCEPT !.addr = FALSE]}
KadValidateCases == {<<held, [Probe(k) EXCEPT !.path = "kadput+validate", !.pay = p]>> : held \in BOOL, k \in PaidKinds, p \in {OkPay} \cup OneBadPays}
               \cup {<<held, [Probe(k) EXCEPT !.path = "kadput+validate", !.pay = OkPay, !.keyOk = FALSE]>> : held \in BOOL, k \in PaidKinds}
               \cup {<<held, [Probe(k) EXCEPT !.path = "kadput+validate", !.keyOk = ko]>> : held \in BOOL, k \in UnpaidKinds, ko \in BOOL}
               \cup {<<held, [Probe(k) EXCEPT !.path = "kadput+validate", !.parse = ps, !.pay = IF k \in PaidKinds THEN OkPay ELSE NoPay]>> :
                        held \in BOOL, k \in PaidKinds \cup UnpaidKinds, ps \in {"trunc", "unknownkind", "garbage"}}
\* the store's size limit, both sides, on the kad entry point
SizeCases == {<<held, [Probe(k) EXCEPT !.path = "kadput", !.parse = ps, !.pay = IF k \in PaidKinds THEN OkPay ELSE NoPay]>> :
                 held \in BOOL, k \in PaidKinds \cup UnpaidKinds, ps \in {"maxm1", "max"}}
\* entries changed after the owner signed them (ids 7..11), a validly signed transaction with parents and outputs (id 6);
\* a scratchpad without signature, and one whose data was swapped under a valid signature
TamperTxCases == {<<held, [Probe(k) EXCEPT !.path = pa, !.txs = t, !.pay = IF k \in PaidKinds THEN OkPay ELSE NoPay]>> :
                     held \in BOOL, k \in {"Transaction", "TransactionWithPayment"}, pa \in {"client", "repl"},
                     t \in {{[id |-> i, ok |-> (i = 6)]} : i \in 6..11}}
            \cup {<<held, [Probe("Transaction") EXCEPT !.path = "repl", !.txs = t]>> : held \in BOOL,
                     t \in {{[id |-> 2, ok |-> TRUE], [id |-> 6, ok |-> TRUE], [id |-> 7, ok |-> FALSE]},
                            {[id |-> 6, ok |-> TRUE], [id |-> 9, ok |-> FALSE], [id |-> 11, ok |-> FALSE]}}}
TamperPadCases == {<<held, [Probe(k) EXCEPT !.path = pa, !.pad = [c |-> 2, sig |-> sg, content |-> 3], !.pay = IF k \in PaidKinds THEN OkPay ELSE NoPay]>> :
                      held \in BOOL, k \in {"Scratchpad", "ScratchpadWithPayment"}, pa \in {"client", "repl"}, sg \in {"none", "swapped"}}
ParseCases == {<<held, [Probe(k) EXCEPT !.parse = ps, !.path = pa, !.pay = IF k \in PaidKinds THEN OkPay ELSE NoPay]>> :
                  held \in BOOL, k \in PaidKinds \cup UnpaidKinds, ps \in {"trunc", "header1", "unknownkind", "oversize", "garbage"},
                  pa \in {"client", "repl", "kadput"}}
         \cup {<<held, [Probe(k) EXCEPT !.path = "kadput", !.pay = IF k \in PaidKinds THEN OkPay ELSE NoPay]>> : held \in BOOL, k \in PaidKinds \cup UnpaidKinds}
Feasible0(d) == (d.path = "repl" => d.kind \in UnpaidKinds)
\* a record of ANOTHER owner / other content presented under the key of a record the node already holds
\* (keyOk = FALSE; the driver realises "victim" by taking the held record's key as the presented key)
VictimCases == {<<Setup(k), [Probe(k) EXCEPT !.keyOk = FALSE, !.path = pa, !.parse = "victim",
                                           !.pay = IF k \in PaidKinds THEN OkPay ELSE NoPay]>> :
                   k \in PaidKinds \cup UnpaidKinds, pa \in {"client", "repl"}}
\* a record of one family delivered to an address that holds a record of ANOTHER family: the scratchpad and the
\* transactions of one owner share an address ("collide": the driver also builds the chunk whose bytes are the
\* owner's public key, which hashes to the same address)
CollideKinds == {"Scratchpad", "ScratchpadWithPayment", "Transaction", "TransactionWithPayment", "Chunk", "ChunkWithPayment"}
CrossCases == {<<[Setup(k1) EXCEPT !.parse = "collide"], [Probe(k2) EXCEPT !.path = pa, !.parse = "collide", !.pay = IF k2 \in PaidKinds THEN OkPay ELSE NoPay]>> :
                  k1 \in {"Scratchpad", "Transaction", "Chunk"}, k2 \in CollideKinds, pa \in {"client", "repl"}}
\* a copy of a held register whose owner-signed base carries OTHER permissions (same owner and label, hence the
\* same address) and an operation of a writer the held register does not permit
AltBaseCases == {<<Setup(k), [Probe(k) EXCEPT !.path = pa, !.parse = "altbase", !.ops = {[id |-> 2, ok |-> FALSE]},
                                              !.pay = IF k \in PaidKinds THEN OkPay ELSE NoPay]>> :
                    k \in {"Register", "RegisterWithPayment"}, pa \in {"client", "repl"}}
\* a transaction record that mixes transactions of the address owner with a VALIDLY signed transaction of another
\* owner (ids 4, 5: "belonging to another address"); the driver lists the owner's own transactions first
ForeignTxCases == {<<held, [Probe("Transaction") EXCEPT !.path = "repl", !.txs = t]>> :
                      held \in BOOL, t \in {{[id |-> 2, ok |-> TRUE], [id |-> 4, ok |-> FALSE]}, {[id |-> 4, ok |-> FALSE]},
                                            {[id |-> 2, ok |-> TRUE], [id |-> 3, ok |-> FALSE], [id |-> 4, ok |-> FALSE]},
                                            \* several transactions of ONE foreign owner in a row (ids 4 and 5)
                                            {[id |-> 4, ok |-> FALSE], [id |-> 5, ok |-> FALSE]},
                                            {[id |-> 2, ok |-> TRUE], [id |-> 4, ok |-> FALSE], [id |-> 5, ok |-> FALSE]}}}
Feasible1(c) == Feasible0(c[2]) /\ (c[2].kind = "TransactionWithPayment" => Cardinality(c[2].txs) = 1)
SingleScenarios == {IF c[1] THEN <<Setup(c[2].kind), c[2]>> ELSE <<c[2]>> : c \in C03Cases \cup ParseCases \cup ForeignTxCases \cup ExtCases
                                                                              \cup KadValidateCases \cup SizeCases
                                                                              \cup {c \in TamperTxCases \cup TamperPadCases : Feasible1(c)}}
              \cup {c \in VictimCases : Feasible0(c[2])}
              \cup {c \in CrossCases : Feasible0(c[2]) /\ Base(c[1].kind) # Base(c[2].kind)}
              \cup {c \in AltBaseCases : Feasible0(c[2])}

\* ---- C07 pools (one address per scenario)
PadPool == {[D0 EXCEPT !.kind = k, !.path = pa, !.pay = IF k = "ScratchpadWithPayment" THEN OkPay ELSE NoPay,
                       !.pad = [c |-> c, sig |-> sg, content |-> c * 10 + alt * 5 + (IF sg = "ok" THEN 0 ELSE 1)]] :
               c \in 1..3, sg \in {"ok", "bad", "bumped"}, alt \in {0, 1},
               k \in {"Scratchpad", "ScratchpadWithPayment"}, pa \in {"client", "repl"}}
TxPool == {[D0 EXCEPT !.kind = k, !.path = pa, !.pay = IF k = "TransactionWithPayment" THEN OkPay ELSE NoPay, !.txs = t] :
               t \in {{[id |-> 1, ok |-> TRUE]}, {[id |-> 2, ok |-> TRUE]}, {[id |-> 3, ok |-> FALSE]},
                      {[id |-> 1, ok |-> TRUE], [id |-> 2, ok |-> TRUE]}, {[id |-> 2, ok |-> TRUE], [id |-> 3, ok |-> FALSE]}},
               k \in {"Transaction", "TransactionWithPayment"}, pa \in {"client", "repl"}}
RegPool == {[D0 EXCEPT !.kind = k, !.path = pa, !.pay = IF k = "RegisterWithPayment" THEN OkPay ELSE NoPay, !.ops = o] :
               o \in {{}, {[id |-> 1, ok |-> TRUE]}, {[id |-> 2, ok |-> TRUE]}, {[id |-> 1, ok |-> TRUE], [id |-> 2, ok |-> TRUE]},
                      {[id |-> 3, ok |-> FALSE]}, {[id |-> 2, ok |-> TRUE], [id |-> 3, ok |-> FALSE]}},
               k \in {"Register", "RegisterWithPayment"}, pa \in {"client", "repl"}}
\* the replication path does not carry payments; a transaction upload carries exactly one transaction
Feasible(d) == /\ (d.path = "repl" => d.kind \in UnpaidKinds)
               /\ (d.kind = "TransactionWithPayment" => Cardinality(d.txs) = 1)
               /\ ~(d.path = "client" /\ d.kind = "Transaction")
Pool(f) == {d \in (CASE f = "pad" -> PadPool [] f = "txs" -> TxPool [] f = "reg" -> RegPool) : Feasible(d)}

VARIABLES fam, content, hist, bad
vars == <<fam, content, hist, bad>>

Init == fam \in Families /\ content = NoneC /\ hist = <<>> /\ bad = {}
\* the model's own step: the content becomes one of the allowed contents
Deliver(d0) == LET d == [d0 EXCEPT !.heldIdx = Held(content)] IN
              \E a \in Allowed(d, content) :
                 LET x == [d |-> d, res |-> IF a = content THEN "Err" ELSE "Ok", beforeD |-> content, afterD |-> a,
                           beforeP |-> content, afterP |-> a, gained |-> {}, lost |-> {}, derivedOK |-> TRUE,
                           contentOK |-> TRUE, unverified |-> 0, unvSame |-> TRUE, viaKad |-> FALSE, exp |-> <<>>, calls |-> <<>>] IN
                 /\ content' = a
                 /\ hist' = Append(hist, d)
                 /\ bad' = {c \in {"C07_Applied", "C07_ScratchpadMonotone", "C07_GrowOnly", "C07_OnlyValid"} : ~Holds(c, x)}
                 /\ UNCHANGED fam
Next == Len(hist) < SeqLen /\ \E d \in Pool(fam) : Deliver(d)
Spec == Init /\ [][Next]_vars

ModelKeepsC07 == bad = {}
\* the highest validly signed version delivered by an entitled delivery is what the model holds
PadIsHighestValid ==
    (fam = "pad" /\ content.kind = "pad") =>
        \A i \in 1..Len(hist) : (hist[i].pad.sig = "ok" /\ hist[i].pad.c > content.c) =>
            \* a higher valid pad was delivered but not entitled at that time (unpaid, not yet held)
            (hist[i].path = "client" /\ hist[i].kind = "Scratchpad")

\* ---- case lists for the driver
ToJsonD(d) == [path |-> d.path, kind |-> d.kind, key |-> IF d.keyOk THEN "derived" ELSE IF d.parse = "victim" THEN "victim" ELSE "other",
               parse |-> IF d.parse \in {"victim", "collide", "altbase"} THEN "ok" ELSE d.parse, collide |-> d.parse = "collide",
               base |-> IF d.parse = "altbase" THEN "alt" ELSE "std",
               pay |-> d.pay, c |-> d.pad.c, sig |-> d.pad.sig, content |-> d.pad.content,
               txs |-> SetToSeq({[id |-> t.id, sig |-> IF t.ok \/ t.id \in {4, 5} \cup 7..11 THEN "ok" ELSE "bad", owner |-> IF t.id \in {4, 5} THEN "other" ELSE "same",
                                   variant |-> CASE t.id = 6 -> "rich" [] t.id = 7 -> "tamperOutputs" [] t.id = 8 -> "tamperOutputsAdd" [] t.id = 9 -> "tamperParents"
                                                 [] t.id = 10 -> "tamperParentsAdd" [] t.id = 11 -> "tamperContent" [] OTHER -> "plain"] : t \in d.txs}),
               ops |-> SetToSeq({[id |-> o.id, sig |-> IF o.ok THEN "ok" ELSE "bad"] : o \in d.ops})]
ASSUME IF "CASES" \in DOMAIN IOEnv
       THEN ndJsonSerialize(IOEnv.CASES, SetToSeq({[i \in 1..Len(s) |-> ToJsonD(s[i])] : s \in SingleScenarios}))
       ELSE TRUE
\* sequences: emitted from the explored behaviours (every behaviour of length SeqLen is a scenario)
Emit == Len(hist) = SeqLen => PrintT(<<"SCN", ToJson([i \in 1..Len(hist) |-> ToJsonD(hist[i])])>>)
=============================================================================
