-------------------------- MODULE NodePutConcTrace --------------------------
(***************************************************************************)
(* Trace specification for the concurrent part of C07: two replicated      *)
(* deliveries for one address run on the REAL node as two in-progress      *)
(* validations whose store commands are served in the prescribed           *)
(* interleaving; the line gives the executed sections and the content held *)
(* once both have completed and the disk work has settled.                 *)
(***************************************************************************)
EXTENDS NodePut, TLC, Json, IOUtils, SequencesExt

Rec == ndJsonDeserialize(IOEnv.TRACE)
N == Len(Rec)
CONSTANT KnownMask
VARIABLES l, viol, known
vars == <<l, viol, known>>

SetOf(seq) == {seq[i] : i \in 1..Len(seq)}
Ids(seq) == {seq[i].id : i \in 1..Len(seq)}
Content(j) == CASE j.kind = "pad" -> [kind |-> "pad", c |-> j.c, content |-> j.content]
                [] j.kind = "txs" -> [kind |-> "txs", ids |-> SetOf(j.ids)]
                [] j.kind = "reg" -> [kind |-> "reg", ops |-> SetOf(j.ops)]
                [] OTHER -> [kind |-> j.kind]
Want(e) == CASE e.family = "pad" -> LET m == IF e.a.c > e.b.c THEN e.a ELSE e.b IN [kind |-> "pad", c |-> m.c, content |-> m.content]
             [] e.family = "txs" -> [kind |-> "txs", ids |-> {1} \cup Ids(e.a.txs) \cup Ids(e.b.txs)]
             [] e.family = "reg" -> [kind |-> "reg", ops |-> {1} \cup Ids(e.a.ops) \cup Ids(e.b.ops)]
\* the two read-write sections overlapped: a read happened while the other handler was between read and write
Pos(e, s) == IF \E i \in 1..Len(e.executed) : e.executed[i] = s THEN CHOOSE i \in 1..Len(e.executed) : e.executed[i] = s ELSE 0
Overlap(e) == LET ar == Pos(e, "A:read")  aw == Pos(e, "A:write")  br == Pos(e, "B:read")  bw == Pos(e, "B:write") IN
              (ar < br /\ br < aw) \/ (br < ar /\ ar < bw)
Bad(e) == ~(e.doneA /\ e.doneB /\ e.contentOK /\ Content(e.after) = Want(e))
KF(e) == IF Overlap(e) /\ e.doneA /\ e.doneB /\ e.contentOK THEN "C07-concurrent-read-check-write" ELSE "none"

Init == l = 1 /\ viol = {} /\ known = {}
Next == /\ l <= N /\ l' = l + 1
        /\ LET e == Rec[l] IN
           IF e.ev # "Concurrent" THEN UNCHANGED <<viol, known>>
           ELSE /\ viol' = IF Bad(e) /\ KF(e) \notin KnownMask THEN viol \cup {[clause |-> "C07_ConcurrentResult", line |-> l]} ELSE viol
                /\ known' = IF Bad(e) /\ KF(e) \in KnownMask THEN known \cup {[kf |-> KF(e), clause |-> "C07_ConcurrentResult", line |-> l]} ELSE known
Spec == Init /\ [][Next]_vars
Report == l = N + 1 => ndJsonSerialize(IOEnv.OUT, << [lines |-> N, violations |-> SetToSeq(viol), known |-> SetToSeq(known)] >>)
=============================================================================
