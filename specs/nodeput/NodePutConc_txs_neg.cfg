SPECIFICATION Spec
CONSTANTS
  Family = "txs"
  KnownMask = {}
INVARIANTS FindingExists
CHECK_DEADLOCK FALSE
