----------------------------- MODULE NodePutConc -----------------------------
(***************************************************************************)
(* Two deliveries for ONE address processed concurrently (C07: "including  *)
(* updates to one key processed concurrently").  The node spawns one task  *)
(* per incoming record; a validation reads the local copy, decides, and    *)
(* writes the result back as a whole -- the read and the write are two     *)
(* separate store commands, so another validation can slip in between.     *)
(*                                                                         *)
(* handler h: pc "idle" -> Read(h): seen[h] := stored -> Write(h): stored  *)
(* := result of applying d[h] to seen[h] (when it changes anything).       *)
(***************************************************************************)
EXTENDS NodePut, TLC, Json, SequencesExt

CONSTANTS Family, KnownMask
H == {"A", "B"}

Pool == CASE Family = "pad" -> {[D0pad EXCEPT !.pad = [c |-> c, sig |-> "ok", content |-> c * 10]] : c \in 2..3}
          [] Family = "txs" -> {[D0txs EXCEPT !.txs = {[id |-> i, ok |-> TRUE]}] : i \in 2..3}
          [] Family = "reg" -> {[D0reg EXCEPT !.ops = {[id |-> i, ok |-> TRUE]}] : i \in 2..3}

VARIABLES stored, d, pc, seen, sched, overlap
vars == <<stored, d, pc, seen, sched, overlap>>

Start == CASE Family = "pad" -> [kind |-> "pad", c |-> 1, content |-> 10]
           [] Family = "txs" -> [kind |-> "txs", ids |-> {1}]
           [] Family = "reg" -> [kind |-> "reg", ops |-> {1}]

Init == /\ stored = Start
        /\ d \in {f \in [H -> Pool] : f["A"] # f["B"]}
        /\ pc = [h \in H |-> "idle"] /\ seen = [h \in H |-> Start] /\ sched = <<>> /\ overlap = FALSE
Read(h) == /\ pc[h] = "idle"
           /\ seen' = [seen EXCEPT ![h] = stored]
           /\ pc' = [pc EXCEPT ![h] = "read"]
           \* the other handler is between its read and its write
           /\ overlap' = (overlap \/ \E g \in H \ {h} : pc[g] = "read")
           /\ sched' = Append(sched, h) /\ UNCHANGED <<stored, d>>
Write(h) == /\ pc[h] = "read"
            /\ LET res == CHOOSE a \in Allowed(d[h], seen[h]) : a # seen[h] \/ Allowed(d[h], seen[h]) = {seen[h]} IN
               stored' = IF res = seen[h] THEN stored ELSE res
            /\ pc' = [pc EXCEPT ![h] = "done"]
            /\ sched' = Append(sched, h) /\ UNCHANGED <<d, seen, overlap>>
Next == \E h \in H : Read(h) \/ Write(h)
Spec == Init /\ [][Next]_vars

Done == \A h \in H : pc[h] = "done"
\* what C07 demands once both deliveries have been fully processed
Want == CASE Family = "pad" -> LET m == IF d["A"].pad.c > d["B"].pad.c THEN d["A"] ELSE d["B"] IN
                               [kind |-> "pad", c |-> m.pad.c, content |-> m.pad.content]
          [] Family = "txs" -> [kind |-> "txs", ids |-> {1} \cup GoodTxs(d["A"]) \cup GoodTxs(d["B"])]
          [] Family = "reg" -> [kind |-> "reg", ops |-> {1} \cup GoodOps(d["A"]) \cup GoodOps(d["B"])]
\* known finding C07-concurrent-read-check-write: the result is wrong only when the two read-write
\* sections overlapped
C07_ConcurrentResult == Done => (stored = Want \/ (overlap /\ "C07-concurrent-read-check-write" \in KnownMask))
\* the finding is really there
FindingExists == ~(Done /\ stored # Want)

DJ(x) == [path |-> x.path, kind |-> x.kind, key |-> "derived", parse |-> "ok", pay |-> "none", c |-> x.pad.c, sig |-> x.pad.sig,
          content |-> x.pad.content, txs |-> SetToSeq({[id |-> t.id, sig |-> "ok"] : t \in x.txs}),
          ops |-> SetToSeq({[id |-> o.id, sig |-> "ok"] : o \in x.ops})]
Emit == Done => PrintT(<<"SCN", ToJson([family |-> Family, a |-> DJ(d["A"]), b |-> DJ(d["B"]), schedule |-> sched])>>)
=============================================================================
