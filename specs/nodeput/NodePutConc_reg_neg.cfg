SPECIFICATION Spec
CONSTANTS
  Family = "reg"
  KnownMask = {}
INVARIANTS FindingExists
CHECK_DEADLOCK FALSE
