--------------------------- MODULE MCRecordStore ---------------------------
(***************************************************************************)
(* Model-checking harness for RecordStore: clients/replication put, the    *)
(* scheduler runs background bodies in any admissible order, completion    *)
(* notes are delivered in any order, range / clean-up / payments / crash   *)
(* happen at any point.  `bad` = clauses falsified by the last step.       *)
(***************************************************************************)
EXTENDS RecordStore, TLC, Json

CONSTANTS Depth, Record, WithCrash, KnownMask,
          WithFail     \* TRUE: a write body may fail (at most one failure report outstanding at a time)

VARIABLES st, g, bad, hist, n
vars == <<st, g, bad, hist, n>>

\* clauses falsified by a step, not counting witnesses matched by a listed known finding
FalsifiedBy(x) == {v.clause : v \in {y \in Verdicts(x) : y.kf \notin KnownMask}}

\* Initial states: the empty store, and every settled store already holding a set S of keys (value 1
\* each, files written, notes delivered, cache empty) -- so that behaviours at and around capacity are
\* within the depth bound.  The driver reaches such a state by put / run / deliver, one key at a time.
One(S) == CHOOSE r \in S : TRUE
RECURSIVE Prefilled0(_, _)
Prefilled0(s, S) ==
    IF S = {} THEN s ELSE
    LET k == CHOOSE x \in S : \A y \in S : x <= y
        s1 == One(PutVerified(s, k, 1)).st
        s2 == One(RunTask(s1, Len(s1.tasks))).st
        s3 == One(HandleNote(s2, Len(s2.notes))).st
    IN Prefilled0(s3, S \ {k})
Prefilled(S) == Prefilled0(Init0, S)
PrefilledGhost(S) == [Ghost0 EXCEPT !.validated = [k \in Key |-> IF k \in S THEN {1} ELSE {}],
                                    !.last = [k \in Key |-> IF k \in S THEN [kind |-> "put", v |-> 1] ELSE [kind |-> "none", v |-> 0]],
                                    !.durable = [k \in Key |-> IF k \in S THEN 1 ELSE 0],
                                    !.lastW = [k \in Key |-> IF k \in S THEN 1 ELSE 0]]
Init == /\ \E S \in {T \in SUBSET Key : Cardinality(T) <= MaxRecords} :
             /\ st = Prefilled(S) /\ g = PrefilledGhost(S)
             /\ hist = IF Record THEN <<[ev |-> "Prefill", keys |-> S]>> ELSE <<>>
        /\ bad = {} /\ n = 0

Base(ev) == [ev |-> ev, s |-> st, r |-> 0, g |-> g, g2 |-> 0, rb |-> 0, k |-> 0, v |-> 0, i |-> 0, ni |-> 0, rg |-> 0, thr |-> Threshold,
             has |-> {}, addrs |-> {}, tok |-> 0, tks |-> {}]

Step(x0) ==
    \E r \in ModelResults(x0) :
       LET x1 == [x0 EXCEPT !.r = r, !.rb = Readback(r.st), !.has = r.st.idx, !.addrs = r.st.idx, !.tok = TypeOk(r.st)]
           g2 == GhostNext(g, x1)
           x == [x1 EXCEPT !.g2 = g2] IN
       /\ st' = r.st
       /\ g' = g2
       /\ bad' = FalsifiedBy(x)
       /\ n' = n + 1
       /\ hist' = IF Record THEN Append(hist, [ev |-> x.ev, k |-> x.k, v |-> x.v, i |-> x.i, ni |-> x.ni, n |-> IF x.ev = "HandleNote" THEN st.notes[x.ni] ELSE 0, rg |-> x.rg, tks |-> x.tks,
                                               t |-> IF x.ev \in {"RunTask", "FailTask"} THEN st.tasks[x.i] ELSE 0,
                                               res |-> r.res, out |-> r.out, idx |-> r.st.idx, rb |-> x.rb])
                  ELSE hist

DoPut == \E k \in Key, v \in Val : Step([Base("PutVerified") EXCEPT !.k = k, !.v = v])
DoRemove == \E k \in Key : Step([Base("Remove") EXCEPT !.k = k])
DoRunTask == \E i \in Runnable(st) : Step([Base("RunTask") EXCEPT !.i = i])
DoFailTask == /\ WithFail /\ ~\E j \in 1..Len(st.notes) : st.notes[j].kind = "R"
              /\ \E i \in {j \in Runnable(st) : st.tasks[j].kind = "W"} : Step([Base("FailTask") EXCEPT !.i = i])
DoHandleNote == \E j \in 1..Len(st.notes) : Step([Base("HandleNote") EXCEPT !.ni = j])
DoGet == Record /\ \E k \in Key : Step([Base("Get") EXCEPT !.k = k])
\* the range may be set again at any time (also after a restart); NK + 1 = a range beyond every key
DoSetRange == \E r \in 1..(NK + 1) : st.range # r /\ Step([Base("SetRange") EXCEPT !.rg = r])
DoCleanup == Step(Base("Cleanup"))
DoPayment == st.pay < 2 /\ Step(Base("PaymentReceived"))
DoQuote == Record /\ \E k \in Key : Step([Base("Quote") EXCEPT !.k = k])
\* crash at any point; the write bodies in progress (any set of runnable W, one per file) may each leave a torn file
DoRestart == /\ WithCrash /\ ~g.restarted /\ n >= 2
             /\ \E T \in SUBSET {st.tasks[i].k : i \in {j \in Runnable(st) : st.tasks[j].kind = "W"}} :
                   Step([Base("Restart") EXCEPT !.tks = T])

Next == DoPut \/ DoRemove \/ DoRunTask \/ DoFailTask \/ DoHandleNote \/ DoGet \/ DoSetRange \/ DoCleanup \/ DoPayment
        \/ DoQuote \/ DoRestart
Spec == Init /\ [][Next]_vars

NoClauseFalsified == bad = {}
Bounded == n <= Depth
Emit == (Record /\ n = Depth) => PrintT(<<"SCN", ToJson(hist)>>)
=============================================================================
