SPECIFICATION Spec
CONSTANTS
  NK = 3
  NV = 2
  MaxRecords = 2
  CacheSize = 1
  Threshold = 99
  Depth = 6
  Record = FALSE
  WithFail = FALSE
  WithCrash = FALSE
  KnownMask = {"C01-removed-while-write-pending", "C10-capacity-lagging-index"}
INVARIANT NoClauseFalsified
CONSTRAINT Bounded
CHECK_DEADLOCK FALSE
