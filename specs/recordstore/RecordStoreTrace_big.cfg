SPECIFICATION Spec
CONSTANTS
  NK = 6
  NV = 3
  MaxRecords = 3
  CacheSize = 2
  Threshold = 99
  KnownMask = {"C01-removed-while-write-pending", "C10-capacity-lagging-index"}
INVARIANT Report
CHECK_DEADLOCK FALSE
