----------------------------- MODULE RecordStore -----------------------------
(***************************************************************************)
(* Disk-backed record store of a node (properties C01, C02, C10).          *)
(*                                                                         *)
(* Implementation-shaped model of ant-networking/src/record_store.rs and   *)
(* of the three store commands in cmd.rs.  One operator per public call /  *)
(* spawned background body / completion command; each returns the SET of   *)
(* possible results [st, res].                                             *)
(*                                                                         *)
(* Keys are numbered by their distance rank to the node (1 = closest).     *)
(* A responsible range r means "distance of key r": key k is within the    *)
(* range iff k < r (the store's own convention).  Values are small ids.    *)
(*                                                                         *)
(* Background bodies (`tasks`, in spawn order):                            *)
(*   W(k,v)  write the record file of k      (spawned by put_verified)     *)
(*   D(k)    delete the record file of k     (spawned by remove)           *)
(*   F(c)    write the quoting-metrics file  (spawned by payment_received) *)
(* Bodies touching the same file run in spawn order; bodies of different   *)
(* files in any order (interpretation I1 of DESIGN.md).                    *)
(* A finished write produces a completion note (`notes`) that is delivered *)
(* to the store later, in any order (each is sent from its own task):      *)
(*   A(k,v) AddLocalRecordAsStored -> mark_as_stored   (`notes` is a       *)
(*          sequence in arrival order; any element may be delivered next)  *)
(*   R(k)  RemoveFailedLocalRecord -> remove      (write failed)           *)
(***************************************************************************)
EXTENDS Naturals, FiniteSets, Sequences, IOUtils

CONSTANTS NK,          \* keys 1..NK by distance rank
          NV,          \* value ids 1..NV
          MaxRecords,  \* configured capacity
          CacheSize,   \* read cache size (>= 1)
          Threshold    \* clean-up applies once this many records are held (MAX_RECORDS_COUNT/10 in the code)

Key == 1..NK
Val == 1..NV
None == 0

Task == [kind : {"W"}, k : Key, v : Val] \cup [kind : {"D"}, k : Key] \cup [kind : {"F"}, c : Nat]
Note == [kind : {"A"}, k : Key, v : Val] \cup [kind : {"R"}, k : Key]

FileOf(t) == IF t.kind = "F" THEN 0 ELSE t.k      \* 0 = the metrics file

\* store state
\*   idx     keys in the main index (`records`)            byDist  keys in the distance index
\*   far     cached farthest key (0 none)                  cache   read cache: sequence of <<k, v>>, oldest first
\*   disk    [Key -> value id | 0]  record files           tasks   pending background bodies, spawn order
\*   notes   pending completion notes                      range   responsible range (0 unset)
\*   pay     payments received                             mfile   count in the metrics file (0 if none)
\*   ty      [Key -> value id | 0]  the value whose record type the index lists for the key (0: not listed)
Init0 == [idx |-> {}, byDist |-> {}, far |-> 0, cache |-> <<>>, disk |-> [k \in Key |-> None],
          tasks |-> <<>>, notes |-> <<>>, range |-> 0, pay |-> 0, mfile |-> 0, ty |-> [k \in Key |-> None]]

Res(s, res) == [st |-> s, res |-> res, out |-> 0]
ResOut(s, out) == [st |-> s, res |-> "Ok", out |-> out]

Max(S) == CHOOSE m \in S : \A x \in S : x <= m
TrueFarthest(S) == IF S = {} THEN 0 ELSE Max(S)

\* ------------------------------------------------------------ cache
CacheKeys(c) == {c[i][1] : i \in 1..Len(c)}
CacheGet(c, k) == IF k \in CacheKeys(c) THEN (CHOOSE i \in 1..Len(c) : c[i][1] = k) ELSE 0
CacheVal(c, k) == c[CacheGet(c, k)][2]
CacheRemove(c, k) == SelectSeq(c, LAMBDA e : e[1] # k)
\* push_back: free_up_space (drop oldest while len >= size), then insert
CachePush(c, k, v) == LET n == Len(c)
                          keep == IF n >= CacheSize THEN SubSeq(c, n - CacheSize + 2, n) ELSE c
                      IN Append(keep, <<k, v>>)

\* ------------------------------------------------------------ remove (also eviction / clean-up / failed write)
RemoveKey(s, k) ==
    LET idx2 == s.idx \ {k}
        byd2 == IF k \in s.idx THEN s.byDist \ {k} ELSE s.byDist
    IN [s EXCEPT !.idx = idx2, !.byDist = byd2,
                 !.cache = CacheRemove(s.cache, k),
                 !.far = IF s.far = k THEN TrueFarthest(idx2) ELSE s.far,
                 !.ty = [s.ty EXCEPT ![k] = None],
                 !.tasks = Append(s.tasks, [kind |-> "D", k |-> k])]

Remove(s, k) == {Res(RemoveKey(s, k), "Ok")}

\* ------------------------------------------------------------ put_verified
PutVerified(s, k, v) ==
    IF k \in CacheKeys(s.cache) /\ CacheVal(s.cache, k) = v
    THEN \* same content already cached: re-insert and return early ("assume it's been stored properly")
         {Res([s EXCEPT !.cache = CachePush(CacheRemove(s.cache, k), k, v)], "Ok")}
    ELSE LET s1 == [s EXCEPT !.cache = CacheRemove(s.cache, k)] IN      \* a cached older version is dropped
         IF Cardinality(s1.idx) >= MaxRecords /\ s1.far # 0 /\ s1.far < k
         THEN {Res(s1, "MaxRecords")}
         ELSE LET s2 == IF Cardinality(s1.idx) >= MaxRecords /\ s1.far # 0 THEN RemoveKey(s1, s1.far) ELSE s1
                  s3 == [s2 EXCEPT !.cache = CachePush(s2.cache, k, v)]   \* cached once accepted
              IN {Res([s3 EXCEPT !.tasks = Append(s3.tasks, [kind |-> "W", k |-> k, v |-> v])], "Ok")}

\* ------------------------------------------------------------ background bodies
Runnable(s) == {i \in 1..Len(s.tasks) : \A j \in 1..(i-1) : FileOf(s.tasks[j]) # FileOf(s.tasks[i])}
DropTask(s, i) == [s EXCEPT !.tasks = SubSeq(s.tasks, 1, i - 1) \o SubSeq(s.tasks, i + 1, Len(s.tasks))]
RunTask(s, i) ==
    LET t == s.tasks[i]  s1 == DropTask(s, i) IN
    CASE t.kind = "W" -> {Res([s1 EXCEPT !.disk[t.k] = t.v, !.notes = Append(s1.notes, [kind |-> "A", k |-> t.k, v |-> t.v])], "Ok")}
      [] t.kind = "D" -> {Res([s1 EXCEPT !.disk[t.k] = None], "Ok")}
      [] t.kind = "F" -> {Res([s1 EXCEPT !.mfile = t.c], "Ok")}

\* the write body fails (the disk refuses the file): nothing is written, the store is told to forget the record
FailTask(s, i) ==
    LET t == s.tasks[i]  s1 == DropTask(s, i) IN
    IF t.kind # "W" THEN {}
    ELSE {Res([s1 EXCEPT !.notes = Append(s1.notes, [kind |-> "R", k |-> t.k])], "Ok")}

\* ------------------------------------------------------------ completion notes
\* deliver the j-th undelivered note
HandleNote(s, j) ==
    LET n == s.notes[j]
        s1 == [s EXCEPT !.notes = SubSeq(s.notes, 1, j - 1) \o SubSeq(s.notes, j + 1, Len(s.notes))] IN
    IF n.kind = "A"
    THEN {Res([s1 EXCEPT !.idx = s1.idx \cup {n.k}, !.byDist = s1.byDist \cup {n.k},
                         !.ty = [s1.ty EXCEPT ![n.k] = n.v],      \* the note carries the record type of the value written
                         !.far = IF s1.far = 0 \/ n.k > s1.far THEN n.k ELSE s1.far], "Ok")}
    ELSE {Res(RemoveKey(s1, n.k), "Ok")}

\* ------------------------------------------------------------ reads
\* get: cache first, then (only if indexed) the file
GetVal(s, k) == IF k \in CacheKeys(s.cache) THEN CacheVal(s.cache, k)
                ELSE IF k \in s.idx THEN s.disk[k] ELSE None
Get(s, k) == {ResOut(s, GetVal(s, k))}
Readback(s) == [k \in Key |-> GetVal(s, k)]
\* the type listed for k is the type of the value served for k (vacuous when k is not listed or nothing is served)
TypeOk(s) == [k \in Key |-> (k \in s.idx /\ GetVal(s, k) # None) => s.ty[k] = GetVal(s, k)]

\* ------------------------------------------------------------ range, clean-up, payments, quotes
SetRange(s, r) == {Res([s EXCEPT !.range = r], "Ok")}

RECURSIVE RemoveAll(_, _)
RemoveAll(s, S) == IF S = {} THEN s ELSE LET k == CHOOSE x \in S : \A y \in S : x <= y
                                          IN RemoveAll(RemoveKey(s, k), S \ {k})
\* thr: number of held records from which clean-up applies (Threshold; given per run on traces because the
\* padded runs reach the real threshold with different amounts of filler)
Cleanup(s, thr) == IF Cardinality(s.idx) < thr \/ s.range = 0 THEN {Res(s, "Ok")}
              ELSE {Res(RemoveAll(s, {k \in s.byDist : k >= s.range}), "Ok")}

PaymentReceived(s) == {Res([s EXCEPT !.pay = s.pay + 1, !.tasks = Append(s.tasks, [kind |-> "F", c |-> s.pay + 1])], "Ok")}

\* k: the key the quote is asked for; stored: "the record at k is already stored locally"
Quote(s, k) == {ResOut(s, [close |-> IF s.range = 0 THEN Cardinality(s.idx) ELSE Cardinality({j \in s.byDist : j < s.range}),
                        max |-> MaxRecords, pay |-> s.pay, stored |-> (k \in s.idx)])}

\* ------------------------------------------------------------ crash and restart (C02)
\* The process stops: pending bodies and notes are lost.  On restart with the same identity the
\* index is rebuilt from the files that authenticate; the cache is empty; the payment count comes
\* from the metrics file (the constructor flushes the metrics again at once: not modelled as a task).
\* T: keys whose file writes were in progress at the crash and are left torn (possibly several, possibly none); a
\* torn file does not authenticate and is deleted by the start-up scan.
Restart(s, T) ==
    LET disk2 == [k \in Key |-> IF k \in T THEN None ELSE s.disk[k]]
        idx2 == {k \in Key : disk2[k] # None} IN
    {Res([Init0 EXCEPT !.idx = idx2, !.byDist = idx2, !.far = TrueFarthest(idx2), !.disk = disk2,
                       !.ty = disk2,                               \* the start-up scan types each record from its own bytes
                       !.pay = s.mfile, !.mfile = s.mfile], "Ok")}

(***************************************************************************)
(* Steps and clauses.  A step x = [ev, s, r, g, g2, + args] where g / g2   *)
(* are the ghost records before / after the step; x.rb the read-back of    *)
(* every key after the step, x.has / x.addrs the keys contains() /         *)
(* record_addresses() report, x.tok[k] "the type listed for k is the type  *)
(* of the value served for k":                                             *)
(*   validated[k]  values ever handed to put_verified for k                *)
(*   last[k]       last key-affecting event: [kind |-> "none"|"put"|"removed", v]*)
(*   durable[k]    C02: value of the latest completed file write of k that *)
(*                 has not been followed by an accepted put or a removal   *)
(*                 of k (0 if none); gone[k]: a delete of k completed and  *)
(*                 k was not put again                                     *)
(***************************************************************************)
Ghost0 == [validated |-> [k \in Key |-> {}], last |-> [k \in Key |-> [kind |-> "none", v |-> 0]],
           durable |-> [k \in Key |-> 0], gone |-> [k \in Key |-> FALSE], restarted |-> FALSE, paid |-> 0,
           racy |-> [k \in Key |-> FALSE], lagOnly |-> TRUE,
           \* lastW[k]: value of the latest completed file write of k (0 none);  staleNote[k]: the completion note
           \* delivered last for k was not the note of that latest write (notes of two writes of k overtook each other)
           lastW |-> [k \in Key |-> 0], staleNote |-> [k \in Key |-> FALSE],
           \* rng: the responsible range the store was last TOLD (0 = none yet in this process life).  The range is an input
           \* of the node, so the clauses that speak of "its responsible range" read it from here and not from what the store
           \* says its range is (seeded/C10-9: a full store that does not take up a widened range)
           rng |-> 0]

Settled(s) == s.tasks = <<>> /\ s.notes = <<>>
InFlightWrites(s) == {i \in 1..Len(s.tasks) : s.tasks[i].kind = "W"}
PendingAdds(s) == {j \in 1..Len(s.notes) : s.notes[j].kind = "A"}

\* an accepted write of k whose outcome the store has not been told yet (completion or failure report pending)
InFlightKey(s, k) == \/ \E j \in 1..Len(s.tasks) : s.tasks[j].kind = "W" /\ s.tasks[j].k = k
                     \/ \E j \in 1..Len(s.notes) : s.notes[j].k = k

\* keys that leave the index in this step
Lost(x) == x.s.idx \ x.r.st.idx

\* "capacity plus the writes still in flight": a store that counted its in-flight writes against the capacity
\* (i.e. one without known finding C10-capacity-lagging-index) would be at capacity as soon as held + in-flight
\* keys reach MaxRecords; the present code only when the index does.  Both are allowed to evict / refuse from
\* that point on; NEITHER may do so earlier.
InFlightKeys(s) == {k \in Key : InFlightKey(s, k)}
AtCapacity(s) == Cardinality(s.idx \cup InFlightKeys(s)) >= MaxRecords

\* switch for the scenario class "completion notes of two writes of one key delivered in the reverse order of the
\* writes, record type observed" (see W_C01_ListedType); off unless VERIF_ENABLE_STALETYPE=1
StaleTypeOn == IF "VERIF_ENABLE_STALETYPE" \in DOMAIN IOEnv THEN IOEnv.VERIF_ENABLE_STALETYPE = "1" ELSE FALSE

\* Each clause is given as the set of its counter-witnesses on step x (keys, or 0 for clauses that
\* are not per key); the clause holds iff the set is empty.

Only0(cond) == IF cond THEN {} ELSE {0}

\* ---- C01
\* "only ever returns, for a key, bytes that were handed to it as a validated record for that key"
W_C01_GetSound(x) ==
         {k \in Key : x.ev = "Get" /\ k = x.k /\ ~(x.r.out = None \/ x.r.out \in x.g2.validated[k])}
    \cup {k \in Key : ~(x.rb[k] = None \/ x.rb[k] \in x.g2.validated[k])}

\* store calls do not crash (a panic inside the swarm driver's event loop takes the node down: nothing is
\* "readable" afterwards); `Panic` is the result the driver logs for a call that unwound
W_C01_NoCrash(x) == Only0(x.r.res # "Panic")

\* "listed": every way of asking the store what it holds gives the index -- contains() / RecordStoreHasKey (x.has),
\* record_addresses() / GetAllLocalRecordAddresses (x.addrs; 999 = a key nobody put), and the "already stored"
\* flag returned with the quoting metrics for the key asked
W_C01_ListedViewsAgree(x) ==
         {k \in Key : (k \in x.has) # (k \in x.r.st.idx) \/ (k \in x.addrs) # (k \in x.r.st.idx)}
    \cup (IF (x.has \cup x.addrs) \ Key # {} THEN {0} ELSE {})
    \cup (IF x.ev = "Quote" /\ x.r.out.stored # (x.k \in x.s.idx) THEN {x.k} ELSE {})

\* "readable exactly as written ... listed": in a settled state (also right after a restart) the record type the
\* store lists for a key is the type of the value it serves for that key (x.tok[k]; on traces: Chunk iff the bytes
\* served are a chunk, a content hash equals the hash of the bytes served).
\* Not judged while VERIF_ENABLE_STALETYPE is off: keys whose last delivered completion note was overtaken (ghost
\* staleNote) -- the unchanged code then lists the type of the OLDER value (suspected defect, see the area notes).
W_C01_ListedType(x) ==
    IF ~Settled(x.r.st) THEN {} ELSE
    {k \in Key : k \in x.r.st.idx /\ ~x.tok[k] /\ (StaleTypeOn \/ ~x.g2.staleNote[k])}

\* "once its background disk work has settled, every accepted validated write is readable exactly as
\*  written (the most recent one per key), and a removed key is no longer readable or listed"
W_C01_SettledReadback(x) ==
    IF ~Settled(x.r.st) THEN {} ELSE
    {k \in Key : ~( /\ x.g2.last[k].kind = "put"     => (x.rb[k] = x.g2.last[k].v /\ k \in x.r.st.idx)
                    /\ x.g2.last[k].kind = "removed" => (x.rb[k] = None /\ k \notin x.r.st.idx) )}

\* ---- C02 (evaluated on Restart steps; the readback is that of the reopened store)
W_C02_NoCorruptAfterRestart(x) ==
    IF x.ev # "Restart" THEN {} ELSE {k \in Key : ~(x.rb[k] = None \/ x.rb[k] \in x.g.validated[k])}
W_C02_CompletedWritesDurable(x) ==
    IF x.ev # "Restart" THEN {} ELSE {k \in Key : x.g.durable[k] # 0 /\ x.rb[k] # x.g.durable[k]}
\* a removal is complete when the delete it spawned has run (gone), or when the removal (remove / eviction /
\* clean-up) was the last thing that happened to the key and no background body of the key was left when the
\* process stopped -- whatever the removal had to do on disk is then done
W_C02_RemovalsStay(x) ==
    IF x.ev # "Restart" THEN {} ELSE
    {k \in Key : /\ \/ x.g.gone[k]
                    \/ /\ x.g.last[k].kind = "removed"
                       /\ ~\E j \in 1..Len(x.s.tasks) : x.s.tasks[j].kind \in {"W", "D"} /\ x.s.tasks[j].k = k
                 /\ ~(x.rb[k] = None /\ k \notin x.r.st.idx)}

\* ---- C10
\* "never retains more records than its configured capacity plus the writes still in flight"
W_C10_Capacity(x) ==
    Only0(Cardinality(x.r.st.idx) <= MaxRecords + Cardinality(InFlightWrites(x.r.st)) + Cardinality(PendingAdds(x.r.st)))

\* "at capacity it accepts a record it does not yet hold only if that record is closer than the farthest
\*  record held, evicting exactly that farthest record, and otherwise refuses it leaving the held set unchanged"
W_C10_Admission(x) ==
    \* (a key whose accepted write is still in flight is not "a record it does not yet hold")
    Only0((x.ev = "PutVerified" /\ x.k \notin x.s.idx /\ ~InFlightKey(x.s, x.k) /\ Cardinality(x.s.idx) >= MaxRecords) =>
            LET f == TrueFarthest(x.s.idx) IN
            IF x.k < f THEN x.r.res = "Ok" /\ x.r.st.idx = x.s.idx \ {f}
                       ELSE x.r.res = "MaxRecords" /\ x.r.st.idx = x.s.idx)

\* "accepts ... only if ..., evicting exactly that farthest record, and otherwise refuses it leaving the held set
\*  unchanged" / "clean-up removes only records outside ...": the index loses a key ONLY by remove(k), by the failure
\* report of a write of k, by an effective clean-up (keys outside the range), or by a put at capacity (the farthest
\* record held).  Restart rebuilds the index from the files (C02).  Every other loss is spurious.
\* (A put at capacity of a key that IS already held may evict the farthest record in the present code; C10 speaks
\* about records "it does not yet hold" only, so that is allowed here and counted in the evidence: stats.heldEvict.)
MayLose(x) ==
    CASE x.ev = "Remove"      -> {x.k}
      [] x.ev = "HandleNote"  -> IF x.s.notes[x.ni].kind = "R" THEN {x.s.notes[x.ni].k} ELSE {}
      [] x.ev = "Cleanup"     -> IF x.g.rng # 0 /\ Cardinality(x.s.idx) >= x.thr THEN {k \in x.s.idx : k >= x.g.rng} ELSE {}
      [] x.ev = "PutVerified" -> IF AtCapacity(x.s) /\ x.s.idx # {} THEN {TrueFarthest(x.s.idx)} ELSE {}
      [] x.ev = "Restart"     -> Key
      [] OTHER                -> {}
W_C10_NoSpuriousLoss(x) == Lost(x) \ MayLose(x)

\* below capacity -- even counting every write still in flight -- a validated record is accepted and nothing is lost
W_C10_BelowCapacityAccepts(x) ==
    Only0((x.ev = "PutVerified" /\ ~AtCapacity(x.s)) => (x.r.res = "Ok" /\ Lost(x) = {}))

\* the three views of the held set agree
W_C10_ViewsAgree(x) == Only0(x.r.st.byDist = x.r.st.idx /\ x.r.st.far = TrueFarthest(x.r.st.idx))

\* "periodic clean-up removes only records outside the responsible distance, and only once the store is
\*  large enough for clean-up to apply"
W_C10_CleanupOnlyOutside(x) ==
    IF x.ev # "Cleanup" THEN {} ELSE
         {k \in Lost(x) : ~(x.g.rng # 0 /\ k >= x.g.rng)}
    \cup {k \in Lost(x) : Cardinality(x.s.idx) < x.thr}

\* "the figures a node signs into a quote equal the true values" (x.g.paid: payments received so far)
W_C10_QuoteExact(x) ==
    IF x.ev # "Quote" THEN {} ELSE
    Only0(/\ x.r.out.close = (IF x.g.rng = 0 THEN Cardinality(x.s.idx)
                              ELSE Cardinality({k \in x.s.idx : k < x.g.rng}))
          /\ x.r.out.max = MaxRecords
          /\ x.r.out.pay = x.g.paid)

\* "payments received, which survive restarts": after a restart the count is the one received so far, unless a
\* metrics flush was still pending when the process stopped
W_C10_PaySurvivesRestart(x) ==
    IF x.ev # "Restart" THEN {} ELSE
    Only0((\E j \in 1..Len(x.s.tasks) : x.s.tasks[j].kind = "F") \/ x.r.st.pay = x.g.paid)

GhostNext(g, x) ==
    LET \* (a key that vanished from the index without a reason was NOT removed: its last accepted write stays due)
        rm == (Lost(x) \ W_C10_NoSpuriousLoss(x)) \cup (IF x.ev = "Remove" THEN {x.k} ELSE {})
                     \* a failed write is reported back and the key forgotten, listed or not
                     \cup (IF x.ev = "HandleNote" /\ x.s.notes[x.ni].kind = "R" THEN {x.s.notes[x.ni].k} ELSE {})
        acc == x.ev = "PutVerified" /\ x.r.res = "Ok"
        t == IF x.ev = "RunTask" THEN x.s.tasks[x.i] ELSE [kind |-> "-"]
    IN [ validated |-> IF x.ev = "PutVerified" THEN [g.validated EXCEPT ![x.k] = @ \cup {x.v}] ELSE g.validated,
         \* (after a crash the history of C01 starts afresh from what the reopened store serves)
         last |-> [k \in Key |-> IF x.ev = "Restart" THEN (IF x.rb[k] # None THEN [kind |-> "put", v |-> x.rb[k]]
                                                                            ELSE [kind |-> "none", v |-> 0])
                                 ELSE IF acc /\ k = x.k THEN [kind |-> "put", v |-> x.v]
                                 ELSE IF k \in rm THEN [kind |-> "removed", v |-> 0]
                                 ELSE g.last[k]],
         durable |-> [k \in Key |-> IF x.ev = "Restart" THEN (IF x.rb[k] # None /\ x.rb[k] \in Val THEN x.rb[k] ELSE 0)
                                    ELSE IF t.kind = "W" /\ t.k = k THEN
                                        \* the write that just completed is the latest accepted one for k?
                                        (IF g.last[k].kind = "put" /\ g.last[k].v = t.v
                                            /\ ~\E j \in 1..Len(x.r.st.tasks) : x.r.st.tasks[j].kind = "W" /\ x.r.st.tasks[j].k = k
                                         THEN t.v ELSE 0)
                                    ELSE IF (acc /\ k = x.k) \/ k \in rm THEN 0
                                    ELSE g.durable[k]],
         gone |-> [k \in Key |-> IF x.ev = "Restart" THEN FALSE
                                 ELSE IF t.kind = "D" /\ t.k = k
                                 THEN ~\E j \in 1..Len(x.r.st.tasks) : x.r.st.tasks[j].kind = "W" /\ x.r.st.tasks[j].k = k
                                 ELSE IF acc /\ k = x.k THEN FALSE ELSE g.gone[k]],
         restarted |-> (x.ev = "Restart"),
         \* k was removed (remove / eviction / clean-up) while a write of k was still pending or its
         \* completion note undelivered, and has not been put again since
         racy |-> [k \in Key |-> IF acc /\ k = x.k THEN FALSE
                                 ELSE IF k \in rm /\ (\/ \E j \in 1..Len(x.s.tasks) : x.s.tasks[j].kind = "W" /\ x.s.tasks[j].k = k
                                                      \/ \E j \in 1..Len(x.s.notes) : x.s.notes[j].kind = "A" /\ x.s.notes[j].k = k) THEN TRUE
                                 ELSE IF x.ev = "Restart" THEN FALSE
                                 ELSE g.racy[k]],
         \* so far every single admission decision was right for the index as it was at that moment, and
         \* the index grew only by delivered completion notes (or a restart scan): whatever excess over the
         \* capacity exists then stems from the index lagging behind accepted writes
         lagOnly |-> /\ g.lagOnly
                     /\ W_C10_Admission(x) = {}
                     /\ (x.r.st.idx \ x.s.idx) \subseteq
                           (IF x.ev = "HandleNote" /\ x.s.notes[x.ni].kind = "A" THEN {x.s.notes[x.ni].k}
                            ELSE IF x.ev = "Restart" THEN Key ELSE {}),
         lastW |-> [k \in Key |-> IF x.ev = "Restart" THEN 0 ELSE IF t.kind = "W" /\ t.k = k THEN t.v ELSE g.lastW[k]],
         staleNote |-> [k \in Key |-> IF x.ev = "Restart" THEN FALSE
                                      ELSE IF x.ev = "HandleNote" /\ x.s.notes[x.ni].kind = "A" /\ x.s.notes[x.ni].k = k
                                      THEN x.s.notes[x.ni].v # g.lastW[k]
                                      ELSE g.staleNote[k]],
         \* payments received; a crash with an unwritten metrics flush may lose the tail (not claimed by C10)
         paid |-> IF x.ev = "PaymentReceived" THEN g.paid + 1
                  ELSE IF x.ev = "Restart" /\ \E j \in 1..Len(x.s.tasks) : x.s.tasks[j].kind = "F" THEN x.r.st.pay
                  ELSE g.paid,
         rng |-> IF x.ev = "SetRange" THEN x.rg ELSE IF x.ev = "Restart" THEN 0 ELSE g.rng ]

Clauses == {"C01_NoCrash", "C01_ListedViewsAgree", "C01_ListedType", "C10_NoSpuriousLoss", "C10_BelowCapacityAccepts",
            "C01_GetSound", "C01_SettledReadback", "C02_NoCorruptAfterRestart", "C02_CompletedWritesDurable",
            "C02_RemovalsStay", "C10_Capacity", "C10_Admission", "C10_ViewsAgree", "C10_CleanupOnlyOutside", "C10_PaySurvivesRestart",
            "C10_QuoteExact"}
Witnesses(c, x) == CASE c = "C01_GetSound" -> W_C01_GetSound(x)
                 [] c = "C01_NoCrash" -> W_C01_NoCrash(x)
                 [] c = "C01_ListedViewsAgree" -> W_C01_ListedViewsAgree(x)
                 [] c = "C01_ListedType" -> W_C01_ListedType(x)
                 [] c = "C10_NoSpuriousLoss" -> W_C10_NoSpuriousLoss(x)
                 [] c = "C10_BelowCapacityAccepts" -> W_C10_BelowCapacityAccepts(x)
                 [] c = "C01_SettledReadback" -> W_C01_SettledReadback(x)
                 [] c = "C02_NoCorruptAfterRestart" -> W_C02_NoCorruptAfterRestart(x)
                 [] c = "C02_CompletedWritesDurable" -> W_C02_CompletedWritesDurable(x)
                 [] c = "C02_RemovalsStay" -> W_C02_RemovalsStay(x)
                 [] c = "C10_PaySurvivesRestart" -> W_C10_PaySurvivesRestart(x)
                 [] c = "C10_Capacity" -> W_C10_Capacity(x)
                 [] c = "C10_Admission" -> W_C10_Admission(x)
                 [] c = "C10_ViewsAgree" -> W_C10_ViewsAgree(x)
                 [] c = "C10_CleanupOnlyOutside" -> W_C10_CleanupOnlyOutside(x)
                 [] c = "C10_QuoteExact" -> W_C10_QuoteExact(x)

(***************************************************************************)
(* Known findings (known_findings.json): genuine defects of the code that  *)
(* are recorded rather than repaired.  A matcher recognises ONE specific   *)
(* failing pattern; every other counter-witness of the same clause is      *)
(* still a violation.  KFOn is the set of finding ids that are listed.     *)
(***************************************************************************)
\* C01-removed-while-write-pending: a key that was removed / evicted / cleaned up while a write of it
\* was pending (or its completion note undelivered) is listed again when the note arrives, although
\* its file has been deleted.
KF_C01_1(c, x, w) == /\ c = "C01_SettledReadback" /\ w \in Key
                     /\ x.g2.last[w].kind = "removed" /\ x.g2.racy[w]
                     /\ x.rb[w] = None /\ w \in x.r.st.idx

\* C10-capacity-lagging-index: capacity is checked against the index only, which lags accepted writes;
\* the store ends up holding more than its capacity with nothing in flight although every admission
\* decision was right for the index as it was (ghost `lagOnly`).  A capacity excess after a wrong
\* admission, or after the index grew by anything but a completion note, is NOT this finding.
KF_C10_1(c, x, w) == c = "C10_Capacity" /\ x.g2.lagOnly

KFMatch(c, x, w) == IF KF_C01_1(c, x, w) THEN "C01-removed-while-write-pending"
                    ELSE IF KF_C10_1(c, x, w) THEN "C10-capacity-lagging-index" ELSE "none"

\* [clause, witness, finding id or "none"]
Verdicts(x) == UNION {{[clause |-> c, w |-> w, kf |-> KFMatch(c, x, w)] : w \in Witnesses(c, x)} : c \in Clauses}

ModelResults(x) ==
    CASE x.ev = "PutVerified"     -> PutVerified(x.s, x.k, x.v)
      [] x.ev = "Remove"          -> Remove(x.s, x.k)
      [] x.ev = "RunTask"         -> RunTask(x.s, x.i)
      [] x.ev = "FailTask"        -> FailTask(x.s, x.i)
      [] x.ev = "HandleNote"      -> HandleNote(x.s, x.ni)
      [] x.ev = "Get"             -> Get(x.s, x.k)
      [] x.ev = "SetRange"        -> SetRange(x.s, x.rg)
      [] x.ev = "Cleanup"         -> Cleanup(x.s, x.thr)
      [] x.ev = "PaymentReceived" -> PaymentReceived(x.s)
      [] x.ev = "Quote"           -> Quote(x.s, x.k)
      [] x.ev = "Restart"         -> Restart(x.s, x.tks)
=============================================================================
