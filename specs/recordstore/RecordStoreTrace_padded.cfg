SPECIFICATION Spec
CONSTANTS
  NK = 4
  NV = 2
  MaxRecords = 4
  CacheSize = 1
  Threshold = 2
  KnownMask = {"C01-removed-while-write-pending", "C10-capacity-lagging-index"}
INVARIANT Report
CHECK_DEADLOCK FALSE
