-------------------------- MODULE RecordStoreTrace --------------------------
(***************************************************************************)
(* Trace specification for C01 / C02 / C10.  Each line is one step on the  *)
(* REAL NodeRecordStore: a public call, the release of one parked          *)
(* background body, or the delivery of one completion command, with its    *)
(* result and the projected state afterwards (index, distance index,       *)
(* farthest, cache keys, files, full read-back, parked bodies, undelivered *)
(* notes).                                                                 *)
(*                                                                         *)
(* Verdict: the clause operators of RecordStore.tla evaluated on the       *)
(* OBSERVED before/after states plus the ghost history kept here.          *)
(* Drift: the model, run alongside from the same Reset, predicts different *)
(* observables for the step.                                               *)
(***************************************************************************)
EXTENDS RecordStore, TLC, Json, IOUtils, SequencesExt

Rec == ndJsonDeserialize(IOEnv.TRACE)
N == Len(Rec)

CONSTANT KnownMask

VARIABLES l, prev, g, m, viol, known, drift, stats, thr
vars == <<l, prev, g, m, viol, known, drift, stats, thr>>

SetOf(seq) == {seq[i] : i \in 1..Len(seq)}
TaskOf(j) == IF j.kind = "W" THEN [kind |-> "W", k |-> j.k, v |-> j.v]
             ELSE IF j.kind = "D" THEN [kind |-> "D", k |-> j.k] ELSE [kind |-> "F", c |-> j.v]
NoteOf(j) == IF j.kind = "A" THEN [kind |-> "A", k |-> j.k, v |-> j.v] ELSE [kind |-> "R", k |-> j.k]

\* observed state in the shape the clause operators read (fields they do not read are omitted)
Obs(e) == [idx |-> SetOf(e.idx), byDist |-> SetOf(e.byDist), far |-> e.far,
           tasks |-> [i \in 1..Len(e.tasks) |-> TaskOf(e.tasks[i])],
           notes |-> [i \in 1..Len(e.notes) |-> NoteOf(e.notes[i])],
           range |-> e.range, pay |-> e.pay]
Obs0 == [idx |-> {}, byDist |-> {}, far |-> 0, tasks |-> <<>>, notes |-> <<>>, range |-> 0, pay |-> 0]
RbOf(e) == [k \in Key |-> IF k <= Len(e.rb) THEN e.rb[k] ELSE 0]
\* per key: e.ty type class listed ("-" not listed, "C" Chunk, "S" Scratchpad, "N" NonChunk(hash)); e.rk kind of the
\* bytes served ("-" nothing, "C" chunk, "S" scratchpad, "T" transaction, "R" register, "?" anything else);
\* e.hm = 1 iff the listed content hash is XorName::from_content of the bytes served
TokOf(e) == [k \in Key |-> LET t == e.ty[k]  r == e.rk[k] IN
                \/ t = "-" \/ r = "-"
                \/ t = "C" /\ r = "C"
                \/ t = "S" /\ r = "S"
                \/ t = "N" /\ r \in {"S", "T", "R"} /\ e.hm[k] = 1]

Known == {"Reset", "Skipped", "PutVerified", "Remove", "RunTask", "FailTask", "HandleNote", "Get", "SetRange", "Cleanup",
          "PaymentReceived", "Quote", "Restart"}

\* position of the released body in the observed list of parked bodies before the step
StepOf(e) == [ev |-> e.ev, s |-> prev, r |-> [st |-> Obs(e), res |-> e.res, out |-> e.out], g |-> g, g2 |-> 0, rb |-> RbOf(e),
              k |-> e.k, v |-> e.v, i |-> e.i, ni |-> e.ni, rg |-> e.rg, thr |-> thr,
              has |-> SetOf(e.has), addrs |-> SetOf(e.addrs), tok |-> TokOf(e), tks |-> SetOf(e.tks)]

\* ---- the model run alongside (drift)
Observables(s) == [idx |-> s.idx, byDist |-> s.byDist, far |-> s.far, cache |-> CacheKeys(s.cache),
                   files |-> {k \in Key : s.disk[k] # None},
                   tasks |-> [i \in 1..Len(s.tasks) |-> IF s.tasks[i].kind = "F" THEN [kind |-> "F"] ELSE [kind |-> s.tasks[i].kind, k |-> s.tasks[i].k]],
                   notes |-> [i \in 1..Len(s.notes) |-> [kind |-> s.notes[i].kind, k |-> s.notes[i].k]],
                   range |-> s.range, pay |-> s.pay, rb |-> Readback(s)]
ObservedOf(e) == [idx |-> SetOf(e.idx), byDist |-> SetOf(e.byDist), far |-> e.far, cache |-> SetOf(e.cache),
                  files |-> SetOf(e.files),
                  tasks |-> [i \in 1..Len(e.tasks) |-> IF e.tasks[i].kind = "F" THEN [kind |-> "F"] ELSE [kind |-> e.tasks[i].kind, k |-> e.tasks[i].k]],
                  notes |-> [i \in 1..Len(e.notes) |-> [kind |-> e.notes[i].kind, k |-> e.notes[i].k]],
                  range |-> e.range, pay |-> e.pay, rb |-> RbOf(e)]
\* the model step for line e from model state ms: released body = same position; note = same kind/key/value
ModelStep(ms, e) ==
    LET x == [ev |-> e.ev, s |-> ms, k |-> e.k, v |-> e.v, i |-> e.i, rg |-> e.rg, ni |-> e.ni, thr |-> thr, tks |-> SetOf(e.tks)]
    IN IF e.ev \in {"RunTask", "FailTask"} /\ (e.i < 1 \/ e.i > Len(ms.tasks)) THEN {}
       ELSE IF e.ev = "HandleNote" /\ (e.ni < 1 \/ e.ni > Len(ms.notes)) THEN {}
       ELSE ModelResults(x)

Init == /\ l = 1 /\ prev = Obs0 /\ g = Ghost0 /\ m = [ok |-> TRUE, st |-> Init0]
        /\ viol = {} /\ known = {} /\ drift = {} /\ stats = [steps |-> 0, settled |-> 0, puts |-> 0, heldEvict |-> 0, listedC |-> 0, listedS |-> 0, listedN |-> 0,
                                                                      scratchAsN |-> 0, staleType |-> 0] /\ thr = Threshold
Next ==
    /\ l <= N
    /\ l' = l + 1
    /\ LET e == Rec[l] IN
       IF e.ev \notin Known \/ (e.ev \notin {"Reset", "Skipped"} /\ e.res = "NotFinished") THEN
            /\ viol' = viol \cup {[clause |-> "Malformed", line |-> l, w |-> 0]}
            /\ UNCHANGED <<prev, g, m, known, drift, stats, thr>>
       ELSE IF e.ev = "Reset" THEN
            /\ prev' = Obs0 /\ g' = Ghost0 /\ m' = [ok |-> TRUE, st |-> Init0] /\ thr' = e.threshold
            /\ UNCHANGED <<viol, known, drift, stats>>
       ELSE IF e.ev = "Skipped" THEN
            \* the behaviour prescribed a body / note the real store does not have: drift, no step
            /\ drift' = drift \cup {l} /\ m' = [ok |-> FALSE, st |-> m.st]
            /\ UNCHANGED <<prev, g, viol, known, stats, thr>>
       ELSE LET x1 == StepOf(e)
                g2 == GhostNext(g, x1)
                x == [x1 EXCEPT !.g2 = g2]
                vs == Verdicts(x)
                mr == IF m.ok THEN {r \in ModelStep(m.st, e) : Observables(r.st) = ObservedOf(e) /\ r.res = e.res /\ r.out = e.out} ELSE {}
            IN /\ prev' = Obs(e)
               /\ g' = g2
               /\ viol' = viol \cup {[clause |-> y.clause, line |-> l, w |-> y.w] : y \in {z \in vs : z.kf \notin KnownMask}}
               /\ known' = known \cup {[kf |-> y.kf, clause |-> y.clause, line |-> l, w |-> y.w] : y \in {z \in vs : z.kf \in KnownMask}}
               /\ m' = IF mr # {} THEN [ok |-> TRUE, st |-> (CHOOSE r \in mr : TRUE).st] ELSE [ok |-> FALSE, st |-> m.st]
               /\ drift' = IF m.ok /\ mr = {} THEN drift \cup {l} ELSE drift
               /\ UNCHANGED thr
               /\ stats' = [steps |-> stats.steps + 1,
                            settled |-> stats.settled + (IF Settled(Obs(e)) THEN 1 ELSE 0),
                            puts |-> stats.puts + (IF e.ev = "PutVerified" THEN 1 ELSE 0),
                            \* a put at capacity of a key already held that evicted the farthest record (allowed, counted)
                            heldEvict |-> stats.heldEvict + (IF e.ev = "PutVerified" /\ e.k \in prev.idx /\ Lost(x) # {} THEN 1 ELSE 0),
                            \* type classes judged in settled states; scratchpads listed by content hash (restart scan)
                            listedC |-> stats.listedC + (IF Settled(Obs(e)) THEN Cardinality({k \in Key : e.ty[k] = "C"}) ELSE 0),
                            listedS |-> stats.listedS + (IF Settled(Obs(e)) THEN Cardinality({k \in Key : e.ty[k] = "S"}) ELSE 0),
                            listedN |-> stats.listedN + (IF Settled(Obs(e)) THEN Cardinality({k \in Key : e.ty[k] = "N"}) ELSE 0),
                            scratchAsN |-> stats.scratchAsN + (IF Settled(Obs(e)) THEN Cardinality({k \in Key : e.ty[k] = "N" /\ e.rk[k] = "S"}) ELSE 0),
                            \* settled states in which a key's listed type is not that of the value served and the clause is switched off
                            staleType |-> stats.staleType + (IF Settled(Obs(e)) THEN Cardinality({k \in Key : k \in Obs(e).idx /\ ~x.tok[k] /\ g2.staleNote[k]}) ELSE 0)]
Spec == Init /\ [][Next]_vars

Report == l = N + 1 =>
          ndJsonSerialize(IOEnv.OUT, << [lines |-> N, violations |-> SetToSeq(viol), known |-> SetToSeq(known),
                                         drift |-> SetToSeq(drift), stats |-> stats] >>)
=============================================================================
