SPECIFICATION Spec
CONSTANTS
  NK = 4
  NV = 2
  MaxRecords = 99
  CacheSize = 25
  Threshold = 99
  KnownMask = {"C01-removed-while-write-pending", "C10-capacity-lagging-index"}
INVARIANT Report
CHECK_DEADLOCK FALSE
