SPECIFICATION Spec
CONSTANTS
  NK = 4
  NV = 2
  MaxRecords = 2
  CacheSize = 1
  Threshold = 99
  Depth = 14
  Record = TRUE
  WithFail = TRUE
  WithCrash = FALSE
  KnownMask = {"C01-removed-while-write-pending", "C10-capacity-lagging-index"}
INVARIANTS NoClauseFalsified Emit
CONSTRAINT Bounded
CHECK_DEADLOCK FALSE
