------------------------------- MODULE BadNode -------------------------------
(***************************************************************************)
(* Bad-node accounting of a node (growth of the specification beyond the   *)
(* listed properties; the link to C09 is the last clause).                 *)
(*                                                                         *)
(* Implementation-shaped model of ant-networking/src/cmd.rs                *)
(* record_node_issue + the block-list handshake:                           *)
(*   - issues recorded against a peer are kept for 300 s, at most 10;      *)
(*   - a report less than (or exactly) 10 s after the last recorded one is *)
(*     not a new issue;                                                    *)
(*   - three recorded issues of one kind => the peer is considered bad,    *)
(*     for good; every later report only repeats the clean-up;             *)
(*   - a bad peer is removed from the routing table at once, is TOLD       *)
(*     (Cmd::PeerConsideredAsBad) once, and is put on the block list only  *)
(*     after it answered.                                                  *)
(* Where the reports come from: the replication fetcher's                  *)
(* FailedToFetchHolders (C08: "a timed-out holder being reported"), the    *)
(* quote-history check (QuoteHistory.tla), close nodes' shunning votes and *)
(* failed chunk proofs.                                                    *)
(*                                                                         *)
(* One operator per step, each returning the new state:                    *)
(*   st = [issues : Seq([kind, age]), bad, inRT, told, blocked]            *)
(***************************************************************************)
EXTENDS Naturals, Sequences, FiniteSets

Window == 300          \* seconds an issue is kept
Gap == 10              \* a report within Gap seconds of the last recorded issue is not a new issue
MaxIssues == 10
Threshold == 3

Init0 == [issues |-> <<>>, bad |-> FALSE, inRT |-> TRUE, told |-> FALSE, blocked |-> FALSE]

Retain(s) == SelectSeq(s, LAMBDA i : i.age < Window)
DropOldest(s) == IF Len(s) = MaxIssues THEN Tail(s) ELSE s
Count(s, k) == Cardinality({i \in 1..Len(s) : s[i].kind = k})
Kinds(s) == {s[i].kind : i \in 1..Len(s)}

\* record_node_issue(peer, kind)
Report(st, k) ==
    IF st.bad THEN [st EXCEPT !.inRT = FALSE]
    ELSE LET s1 == DropOldest(Retain(st.issues))
             new == s1 = <<>> \/ s1[Len(s1)].age > Gap
             s2 == IF new THEN Append(s1, [kind |-> k, age |-> 0]) ELSE s1
             bad == \E x \in Kinds(s2) : Count(s2, x) >= Threshold
         IN [st EXCEPT !.issues = s2, !.bad = bad, !.inRT = IF bad THEN FALSE ELSE st.inRT,
                       !.told = IF bad THEN TRUE ELSE st.told]
\* d seconds pass
Age(st, d) == [st EXCEPT !.issues = [i \in 1..Len(st.issues) |-> [st.issues[i] EXCEPT !.age = @ + d]]]
\* the peer answered the PeerConsideredAsBad request: AddPeerToBlockList
Answer(st) == IF st.told THEN [st EXCEPT !.blocked = TRUE] ELSE st
\* the peer shows up again (identify / kad routing update puts it back into the table)
Rejoin(st) == IF st.blocked THEN st ELSE [st EXCEPT !.inRT = TRUE]

(***************************************************************************)
(* Clauses on one observed step x = [ev, k, d, s (before), r (after),      *)
(*                                   fetches (caused by an advertisement)] *)
(***************************************************************************)
\* what the statement of the mechanism says, written without the implementation's list handling:
\* the issues that count at a report = those recorded less than Window seconds ago
Live(s) == SelectSeq(s, LAMBDA i : i.age < Window)
\* "considered bad" is for good
BadForGood(x) == x.s.bad => x.r.bad
\* a peer becomes bad only at a report, and only with Threshold recorded issues of one kind inside the window
BadOnlyWithThreshold(x) ==
    (~x.s.bad /\ x.r.bad) => /\ x.ev = "Report"
                             /\ \E k \in Kinds(x.r.issues) : Count(Live(x.r.issues), k) >= Threshold
\* ... and it does become bad then
BadWhenThreshold(x) ==
    (x.ev = "Report" /\ \E k \in Kinds(x.r.issues) : Count(x.r.issues, k) >= Threshold) => x.r.bad
\* a report counts only when the last recorded issue is more than Gap seconds old; it never rewrites history
ReportRecorded(x) ==
    (x.ev = "Report" /\ ~x.s.bad) =>
        LET live == Live(x.s.issues)
            fresh == live = <<>> \/ live[Len(live)].age > Gap IN
        /\ Len(x.r.issues) <= MaxIssues
        /\ IF fresh THEN /\ x.r.issues # <<>>
                         /\ x.r.issues[Len(x.r.issues)] = [kind |-> x.k, age |-> 0]
                         /\ \A i \in 1..(Len(x.r.issues) - 1) : \E j \in 1..Len(live) : x.r.issues[i] = live[j]
                    ELSE x.r.issues = live
\* a peer considered bad is out of the routing table after every report about it, and is told exactly once
BadIsOut(x) == (x.ev = "Report" /\ x.r.bad) => ~x.r.inRT
ToldOnce(x) == /\ x.r.told = (x.s.told \/ (~x.s.bad /\ x.r.bad))
               /\ x.notified = (IF ~x.s.bad /\ x.r.bad THEN 1 ELSE 0)
\* the block list only after the peer was told and answered
BlockedAfterAnswer(x) == (x.r.blocked /\ ~x.s.blocked) => (x.ev = "Answer" /\ x.s.told)
\* C09 "acts on advertisements only from peers among its closest": an advertisement from a peer that was
\* considered bad and has not come back into the routing table causes no fetch
BadPeerIgnored(x) == (x.ev = "Advert" /\ ~x.s.inRT) => x.fetches = 0

Clauses == {"Peers_BadForGood", "Peers_BadOnlyWithThreshold", "Peers_BadWhenThreshold", "Peers_ReportRecorded",
            "Peers_BadIsOut", "Peers_ToldOnce", "Peers_BlockedAfterAnswer", "C09_OnlyFromClose"}
Holds(c, x) == CASE c = "Peers_BadForGood" -> BadForGood(x)
                 [] c = "Peers_BadOnlyWithThreshold" -> BadOnlyWithThreshold(x)
                 [] c = "Peers_BadWhenThreshold" -> BadWhenThreshold(x)
                 [] c = "Peers_ReportRecorded" -> ReportRecorded(x)
                 [] c = "Peers_BadIsOut" -> BadIsOut(x)
                 [] c = "Peers_ToldOnce" -> ToldOnce(x)
                 [] c = "Peers_BlockedAfterAnswer" -> BlockedAfterAnswer(x)
                 [] c = "C09_OnlyFromClose" -> BadPeerIgnored(x)
FalsifiedBy(x) == {c \in Clauses : ~Holds(c, x)}
=============================================================================
