----------------------------- MODULE BadNodeTrace -----------------------------
(***************************************************************************)
(* Trace specification of the bad-node accounting: one line per step on a  *)
(* REAL node (drv_peers); every line carries the state after the step as   *)
(* read from the node (hook H10): the issues recorded against the peer     *)
(* with their ages in whole seconds, considered-bad flag, routing-table    *)
(* membership, and the harness's observations (told = a PeerConsideredAsBad*)
(* request was seen, blocked = an AddPeerToBlockList command was seen).    *)
(* Verdicts: the clauses of BadNode.tla on (before, after); the model      *)
(* operators run alongside as the drift predicate.                         *)
(***************************************************************************)
EXTENDS BadNode, TLC, Json, IOUtils, SequencesExt

Rec == ndJsonDeserialize(IOEnv.TRACE)
N == Len(Rec)

VARIABLES l, prev, viol, drift, stats
vars == <<l, prev, viol, drift, stats>>

StateOf(j) == [issues |-> [i \in 1..Len(j.issues) |-> [kind |-> j.issues[i].kind, age |-> j.issues[i].age]],
               bad |-> j.bad, inRT |-> j.inRT, told |-> j.told, blocked |-> j.blocked]
ModelNext(e) == CASE e.ev = "Report" -> Report(prev, e.k)
                  [] e.ev = "Age" -> Age(prev, e.d)
                  [] e.ev = "Answer" -> Answer(prev)
                  [] e.ev = "Rejoin" -> Rejoin(prev)
                  [] OTHER -> prev

Init == l = 1 /\ prev = Init0 /\ viol = {} /\ drift = {} /\ stats = [steps |-> 0, becameBad |-> 0, blocked |-> 0, ignoredAdverts |-> 0, refusedReports |-> 0]
Next ==
    /\ l <= N /\ l' = l + 1
    /\ LET e == Rec[l] IN
       IF e.ev \in {"Reset", "Void"} THEN
            /\ prev' = (IF e.ev = "Reset" THEN StateOf(e.state) ELSE prev) /\ UNCHANGED <<viol, drift, stats>>
       ELSE IF e.ev \in {"Report", "Age", "Answer", "Rejoin", "Advert", "Skipped"} THEN
            LET r == StateOf(e.state)
                x == [ev |-> e.ev, k |-> e.k, d |-> e.d, s |-> prev, r |-> r, fetches |-> e.fetches, notified |-> e.notified] IN
            /\ viol' = viol \cup {[clause |-> c, line |-> l] : c \in FalsifiedBy(x)}
            /\ drift' = IF ModelNext(e) = r THEN drift ELSE drift \cup {l}
            /\ prev' = r
            /\ stats' = [stats EXCEPT !.steps = @ + 1,
                                      !.becameBad = @ + (IF ~prev.bad /\ r.bad THEN 1 ELSE 0),
                                      !.blocked = @ + (IF ~prev.blocked /\ r.blocked THEN 1 ELSE 0),
                                      !.ignoredAdverts = @ + (IF e.ev = "Advert" /\ ~prev.inRT THEN 1 ELSE 0),
                                      !.refusedReports = @ + (IF e.ev = "Report" /\ r.issues = Live(prev.issues) THEN 1 ELSE 0)]
       ELSE /\ viol' = viol \cup {[clause |-> "Malformed", line |-> l]} /\ UNCHANGED <<prev, drift, stats>>
Spec == Init /\ [][Next]_vars
Report0 == l = N + 1 => ndJsonSerialize(IOEnv.OUT, << [lines |-> N, violations |-> SetToSeq(viol), drift |-> SetToSeq(drift), stats |-> stats] >>)
=============================================================================
