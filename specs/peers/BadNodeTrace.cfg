SPECIFICATION Spec
INVARIANT Report0
CHECK_DEADLOCK FALSE
