SPECIFICATION Spec
CONSTANTS
  KindSet = {"ReplicationFailure", "BadQuoting"}
  Durations = {4, 11, 150, 290}
  Depth = 7
INVARIANT ModelKeepsClauses
CHECK_DEADLOCK FALSE
