SPECIFICATION Spec
CONSTANTS
  KindSet = {"ReplicationFailure", "BadQuoting"}
  Durations = {11, 100}
  Depth = 14
INVARIANTS ModelKeepsClauses Emit
CHECK_DEADLOCK FALSE
