SPECIFICATION Spec
CONSTANTS
  KindSet = {"ReplicationFailure", "BadQuoting", "CloseNodesShunning", "FailedChunkProofCheck"}
  Durations = {4, 10, 11, 100, 150, 289, 290, 301}
  Depth = 16
INVARIANTS ModelKeepsClauses Emit
CHECK_DEADLOCK FALSE
