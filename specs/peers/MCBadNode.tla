------------------------------ MODULE MCBadNode ------------------------------
(***************************************************************************)
(* The accounting of ONE peer at one node as a state machine: reports of   *)
(* any kind, time passing in steps that straddle the two time constants    *)
(* (10 s gap, 300 s window), the peer's answer, its return to the routing  *)
(* table, an advertisement from it.  The clauses are checked on every      *)
(* model step; every behaviour of length Depth is printed as a scenario    *)
(* for the driver.                                                         *)
(***************************************************************************)
EXTENDS BadNode, TLC, Json, SequencesExt

CONSTANTS KindSet, Durations, Depth

VARIABLES st, hist, bad
vars == <<st, hist, bad>>

Init == st = Init0 /\ hist = <<>> /\ bad = {}
Step(ev, k, d, r, f) ==
    LET x == [ev |-> ev, k |-> k, d |-> d, s |-> st, r |-> r, fetches |-> f,
              notified |-> IF ~st.bad /\ r.bad THEN 1 ELSE 0] IN
    /\ st' = r
    /\ hist' = Append(hist, [ev |-> ev, k |-> k, d |-> d])
    /\ bad' = FalsifiedBy(x)
Next == /\ Len(hist) < Depth
        /\ \/ \E k \in KindSet : Step("Report", k, 0, Report(st, k), 0)
           \/ \E d \in Durations : st.issues # <<>> /\ Step("Age", "none", d, Age(st, d), 0)
           \/ st.told /\ ~st.blocked /\ Step("Answer", "none", 0, Answer(st), 0)
           \/ ~st.inRT /\ ~st.blocked /\ Step("Rejoin", "none", 0, Rejoin(st), 0)
           \/ Step("Advert", "none", 0, st, 0)
Spec == Init /\ [][Next]_vars

ModelKeepsClauses == bad = {}
\* ages stay small enough for TLC's integers and the model is not vacuous: a peer can become bad and be blocked
Emit == Len(hist) = Depth => PrintT(<<"SCN", ToJson(hist)>>)
CanBecomeBad == ~st.bad
CanBeBlocked == ~st.blocked
=============================================================================
