--------------------------- MODULE BootCacheTrace ---------------------------
(***************************************************************************)
(* Trace specification for C18.  Every line of the trace is one call on a  *)
(* real BootstrapCacheStore (or an action of the environment on the cache  *)
(* file) together with                                                     *)
(*   obs   the projected memory of the store after the call,               *)
(*   raw   the cache file as the driver itself reads it (serde mirror),    *)
(*   load  what the real load_cache_data returns at that moment,           *)
(*   pre / rawpre (flushes) the same two observations just before.         *)
(* The ghost state is what each side knew before a merge: mem[p] = the     *)
(* last observed memory of store p, fileBy = who wrote the file last.      *)
(* The clause operators of BootCache.tla decide; the spec is deterministic *)
(* and accumulates the (clause, line) pairs that are false.                *)
(* The variables of BootCache that the trace does not use are pinned.      *)
(***************************************************************************)
EXTENDS BootCache, TLC, Json, IOUtils, SequencesExt

Rec == ndJsonDeserialize(IOEnv.TRACE)
N == Len(Rec)

VARIABLES l, run, viol, drift
tvars == <<l, run, viol, drift, vars>>

\* An entry's wf is decided by the driver on IDENTITY: the text has the dialable shape, is the canonical text of the
\* (peer, address) pair that was presented, and (raw file, load) is stored under the peer id it carries.
\* An address last seen in the FUTURE (fut): the statement does not say whether it is expired.  Keeping it and
\* dropping it are both accepted: on the saved side of a comparison it counts as expired (dropping it is explained),
\* on the exposed side (what a store, a load or a written file shows) it counts as fresh (keeping it is clean).
E(x)  == Mk(x.k, x.a, x.s, x.f, x.old, x.wf)
ES(x) == Mk(x.k, x.a, x.s, x.f, x.old \/ x.fut, x.wf)
Cache(seq)  == {E(seq[i]) : i \in DOMAIN seq}
CacheS(seq) == {ES(seq[i]) : i \in DOMAIN seq}
Known(e) == e.ev \in {"New", "Add", "AddBad", "AddPlain", "Upd", "Rem", "Cleanup", "Flush", "Write", "Craft",
                      "Corrupt", "SetFile", "Delete", "ExpireFile", "Stress", "Torn"}
EnvEv == {"Corrupt", "SetFile", "Delete", "ExpireFile"}
StoreEv == {"New", "Add", "AddBad", "AddPlain", "Upd", "Rem", "Cleanup", "Flush", "Write"}
\* the store was told not to write the cache file (PeersArgs::local, disable_cache_writing)
Disabled(e) == e.ev = "Flush" /\ e.dis

MaxReported == 300
When(cond, name) == IF cond THEN {name} ELSE {}

\* ghost before the event (a new run starts with fresh stores and no file)
Mem0(e) == IF e.run = run THEN mem ELSE <<>>
By0(e) == IF e.run = run THEN fileBy ELSE "none"
MemOf(e) == IF e.p \in DOMAIN Mem0(e) THEN Mem0(e)[e.p] ELSE {}
ByAfter(e) == IF e.ev \in EnvEv THEN "env"
              ELSE IF e.ev = "Flush" /\ e.res = "Ok" /\ ~e.dis THEN "store"
              ELSE IF e.ev = "Write" /\ e.res = "Ok" THEN "store"
              \* the first node of a network writes an empty cache when its store is made
              ELSE IF e.ev = "New" /\ e.res = "Ok" /\ e.first THEN "store"
              ELSE IF e.ev \in {"Stress", "Torn"} THEN "store"
              ELSE By0(e)

RawFile(r) == IF r.kind = "cache" THEN FCache(CacheS(r.c)) ELSE [kind |-> r.kind]
LoadData(d) == IF d.kind = "data" THEN Data(Cache(d.c)) ELSE NoData
Outcome(d) == IF d.kind = "panic" THEN "Panic" ELSE "Ok"

\* what the file looks like now and what a load returns now
LoadClauses(e) ==
    LET f == RawFile(e.raw)  d == LoadData(e.load)
        maxP == e.cfg.maxP  maxA == e.cfg.maxA IN
         When(~C18_FileAlwaysLoadable(f, ByAfter(e)), "C18_FileAlwaysLoadable")
    \cup When(~C18_CorruptIgnored(f, Outcome(e.load), d), "C18_CorruptIgnored")
    \cup (IF f.kind # "cache" \/ e.ev \in {"Stress", "Torn"} THEN {}
          ELSE IF d.kind # "data" THEN {"C18_SaveLoad"}
          ELSE      When(~C18_SaveLoad(f.c, d.c, maxP, maxA), "C18_SaveLoad")
               \cup When(~C18_Bounds(d.c, e.load.np, maxP, maxA) \/ e.load.mp > maxA, "C18_Bounds")
               \cup When(~C18_CleanAfterCleanup(d.c), "C18_CleanAfterCleanup")
               \* what a load exposes is well formed whoever wrote the file: every address dialable, carrying a peer id,
               \* and kept under that peer (the map key)
               \cup When(~C18_WellFormed(d.c) \/ e.load.key_mismatch, "C18_WellFormed"))

OpClauses(e) ==
    LET m == MemOf(e)
        maxP == e.cfg.maxP  maxA == e.cfg.maxA IN
    IF e.ev \in StoreEv /\ e.res = "Panic"
    THEN IF e.ev \in {"Flush", "Write"}
         THEN (IF e.rawpre.kind = "cache" THEN {"C18_SaveLoad"} ELSE {"C18_CorruptIgnored"})
         ELSE {"C18_Bounds"}
    ELSE IF e.ev \in {"Add", "AddBad", "AddPlain", "Upd", "Rem", "Cleanup", "New"} THEN
         LET o == Cache(e.obs.mem)
             cleaned == e.ev = "Cleanup" \/ (e.ev = "Add" /\ ~Has(m, e.k, e.a))
             \* "after any sequence of additions, status updates, ... and clean-ups ... holds at most": the bounds hold after
             \* EVERY such call, also an addition to a known peer, as long as the memory was within bounds before it
             \* (a flush that failed after merging may leave it beyond them: the merge is "before clean-up")
             within == C18_Bounds(m, Cardinality(PeersOf(m)), maxP, maxA) IN
              When(~C18_WellFormed(o), "C18_WellFormed")
         \cup When((cleaned \/ within) /\ (~C18_Bounds(o, e.obs.np, maxP, maxA) \/ e.obs.mp > maxA), "C18_Bounds")
         \cup When(cleaned /\ ~C18_CleanAfterCleanup(o), "C18_CleanAfterCleanup")
    \* a flush that met a corrupt or foreign file behaves as if the file were absent: it succeeds and replaces it
    ELSE IF e.ev = "Flush" /\ ~e.dis /\ e.rawpre.kind = "corrupt" /\ (e.res # "Ok" \/ e.raw.kind # "cache") THEN {"C18_CorruptIgnored"}
    ELSE IF e.ev = "Craft" THEN
         \* a dialable presentation (e.ok) is crafted into THE canonical address of its peer: same transport (quic-v1 / ws
         \* kept), same port, the peer id of the dialable part; anything else that is returned still has the shape
         When(e.res = "Panic" \/ (e.res = "Ok" /\ ~e.wf) \/ (e.ok /\ (e.res # "Ok" \/ ~e.same)), "C18_WellFormed")
    \* a store that must not write: nothing it knew is lost by the call
    ELSE IF Disabled(e) THEN
         When(e.res = "Ok" /\ ~C18_MergeMonotone(m, {}, Cache(e.obs.mem)), "C18_MergeMonotone")
    \* a flush that FAILED (the file could not be written): what the store knew is still in its memory or in the file
    ELSE IF e.ev = "Flush" /\ e.res = "Err" THEN
         LET o == Cache(e.obs.mem)
             f == IF e.raw.kind = "cache" THEN Cache(e.raw.c) ELSE {} IN
              When(~e.x /\ ~C18_MergeMonotone(m, {}, o \cup f), "C18_MergeMonotone")
         \cup When(e.x /\ ~Explained(m, o \cup f, maxP, maxA), "C18_MergeMonotone")
    \* "saving then loading returns the same peers and addresses": a flush that reports success left a cache in THE file
    \* (the one PeersArgs::bootstrap_cache_dir / the configuration name)
    ELSE IF e.ev = "Flush" /\ e.res = "Ok" /\ e.raw.kind # "cache" THEN {"C18_SaveLoad"}
    ELSE IF e.ev = "Flush" /\ e.res = "Ok" /\ e.raw.kind = "cache" THEN
         \* the on-disk side of the merge is whatever a load of the file as it stood (rawpre) may return:
         \* the flush loads the file itself, and which peers a load keeps of an over-full file is not fixed
         LET f == Cache(e.raw.c)
             pre == IF e.rawpre.kind = "cache" THEN CacheS(e.rawpre.c) ELSE {}
             sides == CleanupResults(pre, maxP, maxA) IN
              When(~e.x /\ ~\E ld \in sides : C18_MergeMonotone(m, ld, f), "C18_MergeMonotone")
         \cup When(e.x /\ ~\E ld \in sides : Explained(Merge(m, ld), f, maxP, maxA), "C18_MergeMonotone")
         \cup When(e.x /\ (~C18_Bounds(f, e.raw.np, maxP, maxA) \/ e.raw.mp > maxA), "C18_Bounds")
         \cup When(e.x /\ ~C18_CleanAfterCleanup(f), "C18_CleanAfterCleanup")
         \cup When(C18_WellFormed(pre) /\ C18_WellFormed(m) /\ ~C18_WellFormed(f), "C18_WellFormed")
    ELSE IF e.ev = "Write" /\ e.res = "Ok" /\ e.raw.kind = "cache" THEN
         When(KeysOf(Cache(e.raw.c)) # KeysOf(m), "C18_SaveLoad")
    ELSE IF e.ev = "Stress" THEN
         When(e.parse_err > 0 \/ e.panics > 0 \/ e.io_err > 0 \/ e.child_panics > 0, "C18_FileAlwaysLoadable")
    \* the writer that died in the middle of a write: what it knew is in its memory or in the file
    ELSE IF e.ev = "Torn" THEN When(e.lost > 0, "C18_MergeMonotone")
    ELSE {}

Falsified(e) == IF ~Known(e) THEN {"Malformed"} ELSE LoadClauses(e) \cup OpClauses(e)

\* implementation-shaped expectations (never part of the verdict)
Drifted(e) ==
    IF ~Known(e) \/ e.ev \notin StoreEv \/ e.res # "Ok" THEN {} ELSE
    LET m == MemOf(e)  o == Cache(e.obs.mem)
        maxP == e.cfg.maxP  maxA == e.cfg.maxA IN
    CASE e.ev = "Add" ->
            IF Has(m, e.k, e.a) THEN When(KeysOf(o) # KeysOf(m), "AddKnownChangedKeys")
            ELSE When(o \notin CleanupResults(m \cup {Mk(e.k, e.a, 1, 0, e.cfg.exp = 0, TRUE)}, maxP, maxA), "AddNewNotACleanupResult")
      [] e.ev \in {"AddBad", "AddPlain"} -> When(o # m, "RejectedShapeChangedCache")
      [] e.ev = "Upd" -> When(KeysOf(o) # KeysOf(m), "UpdChangedKeys")
      [] e.ev = "Rem" -> When(o # Without(m, e.k, e.a), "RemOther")
      [] e.ev = "Cleanup" -> When(o \notin CleanupResults(m, maxP, maxA), "CleanupNotACleanupResult")
      [] e.ev = "Flush" -> IF e.dis THEN When(e.raw # e.rawpre, "DisabledStoreWrote") ELSE When(o # {}, "FlushKeptMemory")
      [] OTHER -> {}

TraceInit == /\ l = 1 /\ run = 0 /\ viol = {} /\ drift = {}
             /\ mem = <<>> /\ fileBy = "none"
             /\ file = FAbsent /\ pc = <<>> /\ buf = <<>> /\ tmp = <<>> /\ wcl = <<>>
             /\ hist = <<>> /\ nops = 0 /\ nfl = 0 /\ nenv = 0

Step == /\ l <= N
        /\ LET e == Rec[l] IN
           \* (a broken build may falsify a clause on every line: the first MaxReported are enough)
           /\ viol' = IF Cardinality(viol) < MaxReported THEN viol \cup {[clause |-> c, line |-> l] : c \in Falsified(e)} ELSE viol
           /\ drift' = IF Cardinality(drift) < MaxReported THEN drift \cup {[what |-> c, line |-> l] : c \in Drifted(e)} ELSE drift
           /\ run' = e.run
           /\ fileBy' = ByAfter(e)
           /\ mem' = IF Known(e) /\ e.ev \in StoreEv
                     THEN (e.p :> Cache(e.obs.mem)) @@ Mem0(e)
                     ELSE Mem0(e)
        /\ l' = l + 1
        /\ UNCHANGED <<file, pc, buf, tmp, wcl, hist, nops, nfl, nenv>>
TraceSpec == TraceInit /\ [][Step]_tvars

Report == l = N + 1 =>
          ndJsonSerialize(IOEnv.OUT, << [lines |-> N, violations |-> SetToSeq(viol), drift |-> SetToSeq(drift)] >>)
=============================================================================
