---------------------------- MODULE MCBootCache ----------------------------
(***************************************************************************)
(* Exhaustive configuration of BootCache for C18: 2 stores on one file,    *)
(* 3 peers x 2 addresses, at most 2 peers and 1 address per peer, counters *)
(* 0..2, two age classes (fresh / expired).  All interleavings of the      *)
(* flush steps of the two stores with each other, with the API operations  *)
(* of the other store and with the environment (corrupting, deleting and   *)
(* ageing the file) are explored within the operation budgets.             *)
(*                                                                         *)
(* Peer and address ids are interchangeable, so new ids are introduced in  *)
(* increasing order only (variable seen).  The history is hidden from the  *)
(* state identity (VIEW): every distinct model state is reached once, and  *)
(* the history it was first reached with is printed as a replay scenario   *)
(* when no flush is in progress.                                           *)
(***************************************************************************)
EXTENDS BootCache, TLC, Json

CONSTANTS MaxCount, MaxOps, MaxFlush, MaxEnv,
          EmitFrom   \* print the history of quiescent states reached with at least this many operations (99: never)

VARIABLE seen
mcvars == <<vars, seen>>

NewAllowed(k, a) == /\ (a = 1 \/ <<k, a - 1>> \in seen)
                    /\ (k = 1 \/ \E b \in AddrIx : <<k - 1, b>> \in seen)

CountsSmall(c) == \A e \in c : e.s <= MaxCount /\ e.f <= MaxCount
Budget == /\ nops <= MaxOps /\ nfl <= MaxFlush /\ nenv <= MaxEnv
          /\ \A p \in Procs : CountsSmall(mem[p]) /\ CountsSmall(tmp[p]) /\ CountsSmall(DataOf(buf[p]))
          /\ (file.kind = "cache" => CountsSmall(file.c))

MCInit == Init /\ seen = {}
\* bookkeeping conjoined to every action: ids are introduced in order, budgets are respected
Track == /\ IF Last.op = "Add"
            THEN /\ (<<Last.k, Last.a>> \in seen \/ NewAllowed(Last.k, Last.a))
                 /\ seen' = seen \cup {<<Last.k, Last.a>>}
            ELSE seen' = seen
         /\ Budget'
\* one wrapper per action of BootCache.tla, so that TLC reports coverage per action
DoAddAddr(p, k, a)         == AddAddr(p, k, a) /\ Track
DoAddBad(p)                == AddBad(p) /\ Track
DoUpdateStatus(p, k, a, b) == UpdateStatus(p, k, a, b) /\ Track
DoRemoveAddr(p, k, a)      == RemoveAddr(p, k, a) /\ Track
DoCleanup(p)               == Cleanup(p) /\ Track
DoFLoad(p, wc)             == FLoad(p, wc) /\ Track
DoFMerge(p)                == FMerge(p) /\ Track
DoFClean(p)                == FClean(p) /\ Track
DoFWriteTemp(p)            == FWriteTemp(p) /\ Track
DoFRename(p)               == FRename(p) /\ Track
DoFTruncate(p)             == FTruncate(p) /\ Track
DoFClear(p)                == FClear(p) /\ Track
DoCorruptFile              == CorruptFile /\ Track
DoDeleteFile               == DeleteFile /\ Track
DoExpireFile(k, a)         == ExpireFile(k, a) /\ Track
MCNext ==
    \/ \E p \in Procs, k \in Peers, a \in AddrIx : DoAddAddr(p, k, a)
    \/ \E p \in Procs, k \in Peers, a \in AddrIx : DoRemoveAddr(p, k, a)
    \/ \E p \in Procs, k \in Peers, a \in AddrIx, b \in BOOLEAN : DoUpdateStatus(p, k, a, b)
    \/ \E p \in Procs : DoAddBad(p)
    \/ \E p \in Procs : DoCleanup(p)
    \/ \E p \in Procs, wc \in BOOLEAN : DoFLoad(p, wc)
    \/ \E p \in Procs : DoFMerge(p)
    \/ \E p \in Procs : DoFClean(p)
    \/ \E p \in Procs : DoFWriteTemp(p)
    \/ \E p \in Procs : DoFRename(p)
    \/ \E p \in Procs : DoFTruncate(p)
    \/ \E p \in Procs : DoFClear(p)
    \/ DoCorruptFile \/ DoDeleteFile
    \/ \E k \in Peers, a \in AddrIx : DoExpireFile(k, a)
MCSpec == MCInit /\ [][MCNext]_mcvars

View == <<mem, file, fileBy, pc, buf, tmp, wcl, nops, nfl, nenv, seen>>

Quiescent == \A p \in Procs : Idle(p)
Compact == [i \in DOMAIN hist |-> <<hist[i].op, hist[i].p, hist[i].k, hist[i].a, hist[i].x>>]
Emit == (EmitFrom >= 0 /\ Quiescent /\ hist # <<>> /\ nops + nfl + nenv >= EmitFrom) => PrintT(ToJson(Compact))

\* action properties
PropBounds == [][StepBounds]_mcvars
PropMerge == [][StepMerge]_mcvars
PropCorruptIgnored == [][StepCorruptIgnored]_mcvars
=============================================================================
