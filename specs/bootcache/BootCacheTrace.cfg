SPECIFICATION TraceSpec
CONSTANTS
  Procs = {1}
  Peers = {1}
  AddrIx = {1}
  MaxPeers = 1
  MaxAddrs = 1
  AtomicWrite = TRUE
INVARIANT Report
CHECK_DEADLOCK FALSE
