------------------------------ MODULE BootCache ------------------------------
(***************************************************************************)
(* Bootstrap cache (property C18).                                         *)
(*                                                                         *)
(* Several store objects (co-located nodes, or the store a node clones to  *)
(* flush in a spawned task) each hold a process-local cache of peer        *)
(* addresses and flush it to ONE shared cache file.  A flush is not atomic *)
(* as a whole: it loads the file, merges, optionally cleans up, writes a   *)
(* temporary file, renames it over the cache file and clears the memory.   *)
(* The steps of different stores interleave freely.                        *)
(*                                                                         *)
(* A cache is a set of entries [k, a, s, f, old, wf]:                      *)
(*   k   peer id,  a address id of that peer,                              *)
(*   s/f success and failure counters,                                     *)
(*   old age class (TRUE = last seen longer ago than the expiry),          *)
(*   wf  the address has the shape ip4/(udp[/quic-v1] | tcp[/ws])/p2p.     *)
(* At most one entry per (k, a).                                           *)
(*                                                                         *)
(* The first part (pure operators and the C18 clause operators) is used    *)
(* unchanged by MCBootCache (on model states) and by BootCacheTrace (on    *)
(* states projected from the real BootstrapCacheStore).  The clause        *)
(* operators are written from the statement of C18, not from the code.     *)
(***************************************************************************)
EXTENDS Naturals, FiniteSets, Sequences

\* ------------------------------------------------------------------ caches
KeyOf(e)      == <<e.k, e.a>>
KeysOf(c)     == {KeyOf(e) : e \in c}
PeersOf(c)    == {e.k : e \in c}
AddrsOf(c, k) == {e \in c : e.k = k}
NPeers(c)     == Cardinality(PeersOf(c))
NAddrs(c, k)  == Cardinality(AddrsOf(c, k))
Has(c, k, a)  == <<k, a>> \in KeysOf(c)
Get(c, k, a)  == CHOOSE e \in c : e.k = k /\ e.a = a
Without(c, k, a) == {e \in c : ~(e.k = k /\ e.a = a)}
Functional(c) == \A e1, e2 \in c : KeyOf(e1) = KeyOf(e2) => e1 = e2

Mk(k, a, s, f, old, wf) == [k |-> k, a |-> a, s |-> s, f |-> f, old |-> old, wf |-> wf]

\* an address clean-up has to remove: expired, or more failures than successes
Bad(e)  == e.old \/ e.f > e.s
Good(c) == {e \in c : ~Bad(e)}

Min(x, y) == IF x <= y THEN x ELSE y

\* Clean-up removes the bad addresses and then as many addresses / peers as the limits require.
\* WHICH addresses and peers go is an implementation choice the property is silent about
\* (the code keeps the least failing addresses and the most recently seen peers).
CleanupResults(c, maxP, maxA) ==
    LET g == Good(c) IN
    {r \in SUBSET g :
        /\ NPeers(r) = Min(maxP, NPeers(g))
        /\ \A k \in PeersOf(r) : NAddrs(r, k) = Min(maxA, NAddrs(g, k))}

\* Merge of the memory m with the loaded file content l: union of the addresses, counters added,
\* the newer of the two last-seen times.
Merge(m, l) ==
       {e \in m : KeyOf(e) \notin KeysOf(l)}
  \cup {e \in l : KeyOf(e) \notin KeysOf(m)}
  \cup {Mk(e.k, e.a, e.s + o.s, e.f + o.f, e.old /\ o.old, e.wf /\ o.wf) :
            <<e, o>> \in {x \in m \X l : KeyOf(x[1]) = KeyOf(x[2])}}

\* ------------------------------------------------------------------ files
FAbsent   == [kind |-> "absent"]
FCorrupt  == [kind |-> "corrupt"]
FCache(c) == [kind |-> "cache", c |-> c]

\* what a load may return: "none" (absent, corrupt or foreign file: treated as absent) or a cache
NoData == [kind |-> "none"]
Data(c) == [kind |-> "data", c |-> c]
LoadResults(f, maxP, maxA) ==
    IF f.kind = "cache" THEN {Data(r) : r \in CleanupResults(f.c, maxP, maxA)} ELSE {NoData}
DataOf(d) == IF d.kind = "data" THEN d.c ELSE {}

\* ================================================================== clauses of C18
\* "holds at most the configured number of peers and addresses per peer"
\* (np = the peer count the store itself reports; it also counts peers left without address)
C18_Bounds(c, np, maxP, maxA) ==
    /\ NPeers(c) <= maxP /\ np <= maxP
    /\ \A k \in PeersOf(c) : NAddrs(c, k) <= maxA

\* "contains only dialable addresses carrying a peer id"
C18_WellFormed(c) == \A e \in c : e.wf

\* "after clean-up holds no address that is expired or has more failures than successes"
C18_CleanAfterCleanup(c) == \A e \in c : ~Bad(e)

\* "merging with the on-disk cache never loses a peer or address known to either side before clean-up"
C18_MergeMonotone(m, l, merged) == KeysOf(m) \cup KeysOf(l) \subseteq KeysOf(merged)

\* an address of src missing from dst is one clean-up (limits maxP, maxA) removes:
\* it is bad, or its peer is at the address limit in dst, or its peer is gone and dst is at the peer limit
Explained(src, dst, maxP, maxA) ==
    \A e \in src : KeyOf(e) \in KeysOf(dst) \/ Bad(e)
                   \/ (NAddrs(dst, e.k) > 0 /\ NAddrs(dst, e.k) >= maxA)
                   \/ (NAddrs(dst, e.k) = 0 /\ NPeers(dst) >= maxP)

\* "saving then loading returns the same peers and addresses apart from those clean-up removes"
C18_SaveLoad(saved, loaded, maxP, maxA) ==
    /\ KeysOf(loaded) \subseteq KeysOf(saved)
    /\ Explained(saved, loaded, maxP, maxA)

\* "concurrent writers never leave a file that fails to load": whenever the file does not parse,
\* the last writer was not a store (by = "env": the environment corrupted or replaced it)
C18_FileAlwaysLoadable(f, by) == f.kind = "corrupt" => by = "env"

\* "a corrupt or foreign file is ignored without crashing": an operation that met such a file
\* returned (no panic) and behaved as if the file were absent
C18_CorruptIgnored(f, outcome, d) == f.kind # "cache" => outcome # "Panic" /\ d = NoData

\* ================================================================== state machine
CONSTANTS Procs,        \* store objects sharing the file
          Peers, AddrIx,\* peer ids, address ids per peer
          MaxPeers, MaxAddrs,
          AtomicWrite   \* TRUE: temp file + rename (the design); FALSE: truncate and write in place

VARIABLES mem,      \* mem[p]: process-local cache
          file,     \* the shared cache file
          fileBy,   \* ghost: who wrote the file last: "none" | "store" | "env"
          pc,       \* flush program counter of p
          buf,      \* buf[p]: what p loaded from the file
          tmp,      \* tmp[p]: content of p's temporary file
          wcl,      \* wcl[p]: the flush in progress was asked to clean up
          hist,     \* history of steps (ghost; yields replay scenarios)
          nops, nfl, nenv   \* numbers of API operations / flushes / environment actions so far
vars == <<mem, file, fileBy, pc, buf, tmp, wcl, hist, nops, nfl, nenv>>

Idle(p) == pc[p] = "idle"
Log(r) == hist' = Append(hist, r)
Op(name, p, k, a, x) == [op |-> name, p |-> p, k |-> k, a |-> a, x |-> x]

Init == /\ mem = [p \in Procs |-> {}]
        /\ file = FAbsent /\ fileBy = "none"
        /\ pc = [p \in Procs |-> "idle"]
        /\ buf = [p \in Procs |-> NoData]
        /\ tmp = [p \in Procs |-> {}]
        /\ wcl = [p \in Procs |-> FALSE]
        /\ hist = <<>> /\ nops = 0 /\ nfl = 0 /\ nenv = 0

FlushVarsUnchanged == UNCHANGED <<pc, buf, tmp, wcl, nfl>>
FileUnchanged == UNCHANGED <<file, fileBy, nenv>>

\* add_addr: a known address is refreshed; a new one enters with one success and the cache is cleaned up.
\* (addresses whose shape cannot be crafted into ip4/udp|tcp/p2p never enter: AddBad)
AddAddr(p, k, a) ==
    /\ Idle(p)
    /\ IF Has(mem[p], k, a)
       THEN LET e == Get(mem[p], k, a) IN
            /\ mem' = [mem EXCEPT ![p] = Without(@, k, a) \cup {Mk(k, a, e.s, e.f, FALSE, e.wf)}]
            /\ Log(Op("Add", p, k, a, FALSE))
       ELSE \E r \in CleanupResults(mem[p] \cup {Mk(k, a, 1, 0, FALSE, TRUE)}, MaxPeers, MaxAddrs) :
            /\ mem' = [mem EXCEPT ![p] = r]
            /\ Log(Op("Add", p, k, a, TRUE))
    /\ nops' = nops + 1
    /\ FlushVarsUnchanged /\ FileUnchanged

AddBad(p) ==
    /\ Idle(p)
    /\ Log(Op("AddBad", p, 0, 0, FALSE))
    /\ nops' = nops + 1
    /\ UNCHANGED mem /\ FlushVarsUnchanged /\ FileUnchanged

UpdateStatus(p, k, a, ok) ==
    /\ Idle(p) /\ Has(mem[p], k, a)
    /\ LET e == Get(mem[p], k, a) IN
       mem' = [mem EXCEPT ![p] = Without(@, k, a) \cup
                 {Mk(k, a, IF ok THEN e.s + 1 ELSE e.s, IF ok THEN e.f ELSE e.f + 1, FALSE, e.wf)}]
    /\ Log(Op("Upd", p, k, a, ok))
    /\ nops' = nops + 1
    /\ FlushVarsUnchanged /\ FileUnchanged

RemoveAddr(p, k, a) ==
    /\ Idle(p) /\ Has(mem[p], k, a)
    /\ mem' = [mem EXCEPT ![p] = Without(@, k, a)]
    /\ Log(Op("Rem", p, k, a, FALSE))
    /\ nops' = nops + 1
    /\ FlushVarsUnchanged /\ FileUnchanged

Cleanup(p) ==
    /\ Idle(p)
    /\ \E r \in CleanupResults(mem[p], MaxPeers, MaxAddrs) : mem' = [mem EXCEPT ![p] = r]
    /\ Log(Op("Cleanup", p, 0, 0, FALSE))
    /\ nops' = nops + 1
    /\ FlushVarsUnchanged /\ FileUnchanged

\* ---- sync_and_flush_to_disk(with_cleanup), step by step
FLoad(p, wc) ==
    /\ Idle(p)
    /\ \E d \in LoadResults(file, MaxPeers, MaxAddrs) : buf' = [buf EXCEPT ![p] = d]
    /\ pc' = [pc EXCEPT ![p] = "loaded"]
    /\ wcl' = [wcl EXCEPT ![p] = wc]
    /\ nfl' = nfl + 1
    /\ Log(Op("FLoad", p, 0, 0, wc))
    /\ UNCHANGED <<mem, tmp, nops>> /\ FileUnchanged

FMerge(p) ==
    /\ pc[p] = "loaded"
    /\ mem' = [mem EXCEPT ![p] = Merge(@, DataOf(buf[p]))]
    /\ pc' = [pc EXCEPT ![p] = IF wcl[p] THEN "merged" ELSE "cleaned"]
    /\ Log(Op("FMerge", p, 0, 0, wcl[p]))
    /\ UNCHANGED <<buf, tmp, wcl, nops, nfl>> /\ FileUnchanged

FClean(p) ==
    /\ pc[p] = "merged"
    /\ \E r \in CleanupResults(mem[p], MaxPeers, MaxAddrs) : mem' = [mem EXCEPT ![p] = r]
    /\ pc' = [pc EXCEPT ![p] = "cleaned"]
    /\ Log(Op("FClean", p, 0, 0, TRUE))
    /\ UNCHANGED <<buf, tmp, wcl, nops, nfl>> /\ FileUnchanged

FWriteTemp(p) ==
    /\ pc[p] = "cleaned" /\ AtomicWrite
    /\ tmp' = [tmp EXCEPT ![p] = mem[p]]
    /\ pc' = [pc EXCEPT ![p] = "written"]
    /\ Log(Op("FWriteTemp", p, 0, 0, wcl[p]))
    /\ UNCHANGED <<mem, buf, wcl, nops, nfl>> /\ FileUnchanged

FRename(p) ==
    /\ pc[p] = "written"
    /\ file' = FCache(tmp[p]) /\ fileBy' = "store"
    /\ pc' = [pc EXCEPT ![p] = "renamed"]
    /\ Log(Op("FRename", p, 0, 0, wcl[p]))
    /\ UNCHANGED <<mem, buf, tmp, wcl, nops, nfl, nenv>>

\* the alternative that is NOT the design: truncate the cache file, then write it in place
FTruncate(p) ==
    /\ pc[p] = "cleaned" /\ ~AtomicWrite
    /\ file' = FCorrupt /\ fileBy' = "store"
    /\ tmp' = [tmp EXCEPT ![p] = mem[p]]
    /\ pc' = [pc EXCEPT ![p] = "written"]
    /\ Log(Op("FTruncate", p, 0, 0, wcl[p]))
    /\ UNCHANGED <<mem, buf, wcl, nops, nfl, nenv>>

FClear(p) ==
    /\ pc[p] = "renamed"
    /\ mem' = [mem EXCEPT ![p] = {}]
    /\ pc' = [pc EXCEPT ![p] = "idle"]
    /\ Log(Op("FClear", p, 0, 0, wcl[p]))
    /\ UNCHANGED <<buf, tmp, wcl, nops, nfl>> /\ FileUnchanged

\* ---- environment: the file is overwritten with garbage / removed / an entry of it ages
CorruptFile ==
    /\ file' = FCorrupt /\ fileBy' = "env" /\ nenv' = nenv + 1
    /\ Log(Op("Corrupt", 0, 0, 0, FALSE))
    /\ UNCHANGED <<mem, nops>> /\ FlushVarsUnchanged
DeleteFile ==
    /\ file.kind # "absent"
    /\ file' = FAbsent /\ fileBy' = "env" /\ nenv' = nenv + 1
    /\ Log(Op("Delete", 0, 0, 0, FALSE))
    /\ UNCHANGED <<mem, nops>> /\ FlushVarsUnchanged
ExpireFile(k, a) ==
    /\ file.kind = "cache" /\ Has(file.c, k, a) /\ ~Get(file.c, k, a).old
    /\ LET e == Get(file.c, k, a) IN
       file' = FCache(Without(file.c, k, a) \cup {Mk(k, a, e.s, e.f, TRUE, e.wf)})
    /\ nenv' = nenv + 1
    /\ Log(Op("ExpireFile", 0, k, a, FALSE))
    /\ UNCHANGED <<mem, fileBy, nops>> /\ FlushVarsUnchanged

Next ==
    \/ \E p \in Procs, k \in Peers, a \in AddrIx : AddAddr(p, k, a) \/ RemoveAddr(p, k, a)
    \/ \E p \in Procs, k \in Peers, a \in AddrIx, ok \in BOOLEAN : UpdateStatus(p, k, a, ok)
    \/ \E p \in Procs : AddBad(p) \/ Cleanup(p) \/ FMerge(p) \/ FClean(p) \/ FWriteTemp(p) \/ FRename(p)
                        \/ FTruncate(p) \/ FClear(p)
    \/ \E p \in Procs, wc \in BOOLEAN : FLoad(p, wc)
    \/ CorruptFile \/ DeleteFile
    \/ \E k \in Peers, a \in AddrIx : ExpireFile(k, a)

Spec == Init /\ [][Next]_vars

\* ================================================================== the clauses on the model
\* the step just taken (hist records exactly one entry per step)
Stepped == Len(hist') = Len(hist) + 1
Last == hist'[Len(hist')]

\* steps that end with clean-up leave the cache within bounds and clean
StepBounds == Stepped =>
    /\ (Last.op \in {"Cleanup", "FClean"} \/ (Last.op = "Add" /\ Last.x)) =>
            /\ C18_Bounds(mem'[Last.p], NPeers(mem'[Last.p]), MaxPeers, MaxAddrs)
            /\ C18_CleanAfterCleanup(mem'[Last.p])
    /\ (Last.op = "FRename" /\ Last.x) =>
            /\ C18_Bounds(file'.c, NPeers(file'.c), MaxPeers, MaxAddrs)
            /\ C18_CleanAfterCleanup(file'.c)
StepMerge == Stepped /\ Last.op = "FMerge" =>
    C18_MergeMonotone(mem[Last.p], DataOf(buf[Last.p]), mem'[Last.p])
\* a flush that met a corrupt or absent file carried on with its own data only
StepCorruptIgnored == Stepped /\ Last.op = "FLoad" =>
    C18_CorruptIgnored(file, "Ok", buf'[Last.p])

\* state clauses
InvWellFormed == \A p \in Procs : C18_WellFormed(mem[p]) /\ Functional(mem[p])
InvFileLoadable == C18_FileAlwaysLoadable(file, fileBy)
\* whatever a load returns now is within bounds, clean, and is the saved content minus what clean-up removes
InvLoad == \A d \in LoadResults(file, MaxPeers, MaxAddrs) :
    d.kind = "data" =>
        /\ C18_Bounds(d.c, NPeers(d.c), MaxPeers, MaxAddrs)
        /\ C18_CleanAfterCleanup(d.c)
        /\ C18_WellFormed(d.c)
        /\ C18_SaveLoad(file.c, d.c, MaxPeers, MaxAddrs)
\* memory only exceeds the bounds between the merge and the end of a flush
InvMemBounded == \A p \in Procs :
    pc[p] \in {"idle", "loaded"} => C18_Bounds(mem[p], NPeers(mem[p]), MaxPeers, MaxAddrs)

TypeOK == /\ \A p \in Procs : pc[p] \in {"idle", "loaded", "merged", "cleaned", "written", "renamed"}
          /\ file.kind \in {"absent", "corrupt", "cache"}
          /\ fileBy \in {"none", "store", "env"}
=============================================================================
