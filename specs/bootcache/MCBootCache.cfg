SPECIFICATION MCSpec
CONSTANTS
  Procs = {1, 2}
  Peers = {1, 2, 3}
  AddrIx = {1, 2}
  MaxPeers = 2
  MaxAddrs = 1
  AtomicWrite = TRUE
  MaxCount = 2
  MaxOps = 3
  MaxFlush = 2
  MaxEnv = 1
  EmitFrom = 0
VIEW View
INVARIANTS TypeOK InvWellFormed InvFileLoadable InvLoad InvMemBounded Emit
PROPERTIES PropBounds PropMerge PropCorruptIgnored
CHECK_DEADLOCK FALSE
