SPECIFICATION MCSpec
CONSTANTS
  Procs = {1, 2}
  Peers = {1, 2, 3}
  AddrIx = {1, 2}
  MaxPeers = 2
  MaxAddrs = 1
  AtomicWrite = FALSE
  MaxCount = 2
  MaxOps = 2
  MaxFlush = 2
  MaxEnv = 0
  EmitFrom = 99
VIEW View
INVARIANTS InvFileLoadable
CHECK_DEADLOCK FALSE
