SPECIFICATION Spec
INVARIANTS Symmetric ZeroIffEqual XorTriangle OrderTotal
CHECK_DEADLOCK FALSE
