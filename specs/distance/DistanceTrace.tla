---------------------------- MODULE DistanceTrace ----------------------------
(***************************************************************************)
(* Trace specification for C11: every line is one real call               *)
(*   Dist      NetworkAddress::distance + convert_distance_to_u256, both   *)
(*             directions and both forms (typed / raw record key)          *)
(*   Sort      sort_peers_by_address                                       *)
(*   InRange   the range filter used for replication candidates            *)
(*   Closest   Node::calculate_get_closest_peers (count and/or range)      *)
(*   Candidates SwarmDriver::get_replicate_candidates on a real node       *)
(*   Conv      convert_distance_to_u256 on a crafted real Distance: the    *)
(*             distance between the address with digest a and the          *)
(*             key-space point b                                           *)
(* Results are compared as DIGESTS (a peer set may contain a peer twice:   *)
(* two entries, one digest); for sets without repetition that is the same  *)
(* as comparing entry numbers.                                             *)
(* with the SHA-256 digests of the address bytes computed by the driver.   *)
(***************************************************************************)
EXTENDS Distance, TLC, Json, IOUtils

Rec == ndJsonDeserialize(IOEnv.TRACE)
N == Len(Rec)
VARIABLES l, viol
vars == <<l, viol>>

Peers(e) == [i \in 1..Len(e.peers) |-> e.peers[i]]
When(cond, name) == IF cond THEN {name} ELSE {}
\* every reported entry number is one of the entries handed in
ValidOut(e) == \A i \in 1..Len(e.out) : e.out[i] \in 1..Len(e.peers)
DigSeq(e, ids) == [i \in 1..Len(ids) |-> e.peers[ids[i]]]
DigSet(e, S) == {e.peers[p] : p \in S}
OutSet(e) == {e.out[i] : i \in 1..Len(e.out)}
\* calculate_get_closest_peers returns (address, multiaddrs) pairs: every returned pair is one of the entries handed in
\* -- the peer together with ITS OWN multiaddrs, all of them, in order -- and no entry is returned twice
\* (odig[j]: digest of the j-th returned address; oaddr[j]: the entries its multiaddrs were made for; naddr[i]: how
\*  many multiaddrs entry i was given)
OwnEntry(e, j, i) == e.peers[i] = e.odig[j] /\ e.oaddr[j] = [k \in 1..e.naddr[i] |-> i]
ClosestEntriesOk(e) ==
    /\ Len(e.odig) = Len(e.out) /\ Len(e.oaddr) = Len(e.out)
    /\ \A j \in 1..Len(e.odig) : \E i \in 1..Len(e.peers) : OwnEntry(e, j, i)
    /\ \A j1, j2 \in 1..Len(e.oaddr) : (j1 # j2 /\ Len(e.oaddr[j1]) > 0 /\ Len(e.oaddr[j2]) > 0) => e.oaddr[j1][1] # e.oaddr[j2][1]
Falsified(e) ==
    CASE e.ev = "Dist" ->
            LET d == Dist(e.a, e.b) IN
               When(e.ab # d \/ e.ba # d, "C11_Metric")                           \* value and symmetry
          \cup When((d = Zero) # e.same, "C11_Metric")                              \* zero only for equal addresses
          \cup When(e.abRaw # d \/ e.abMixed # d, "C11_FormIndependent")          \* raw/raw and typed/raw, peers included
      [] e.ev = "Sort" ->
            LET want == Take(SortedIds(e.target, Peers(e)), e.n) IN
               When(Len(e.peers) >= CloseGroupSize /\ (e.res # "Ok" \/ ~ValidOut(e) \/ DigSeq(e, e.out) # DigSeq(e, want)
                                                       \/ Cardinality(OutSet(e)) # Len(e.out)), "C11_ClosestCount")
          \cup When(Len(e.peers) < CloseGroupSize /\ e.res # "NotEnoughPeers", "C11_ClosestCount")
      [] e.ev = "InRange" ->
               When(~ValidOut(e) \/ DigSet(e, OutSet(e)) # DigSet(e, InRangeIds(e.target, Peers(e), e.range)), "C11_OrderAgrees")
      [] e.ev = "Closest" ->
            LET want == IF e.hasRange THEN InRangeIds(e.target, Peers(e), e.range)
                        ELSE IF e.hasN THEN {x \in DOMAIN Peers(e) : \E i \in 1..Len(Take(SortedIds(e.target, Peers(e)), e.n)) : Take(SortedIds(e.target, Peers(e)), e.n)[i] = x}
                        ELSE {}
            IN When(~ValidOut(e) \/ DigSet(e, OutSet(e)) # DigSet(e, want), "C11_OrderAgrees")
          \cup When(~e.hasRange /\ e.hasN /\ (~ValidOut(e) \/ DigSeq(e, e.out) # DigSeq(e, Take(SortedIds(e.target, Peers(e)), e.n))), "C11_ClosestCount")
          \cup When(~ClosestEntriesOk(e), "C11_ClosestEntries")
      \* replication candidates of a real node: the peers within the responsible range when those are at least a close
      \* group, else the CloseGroupSize closest -- in both cases decided and ordered by the metric
      [] e.ev = "Candidates" ->
            LET inr == InRangeIds(e.target, Peers(e), e.range)
                outset == {e.out[i] : i \in 1..Len(e.out)} IN
            IF e.hasRange /\ Cardinality(inr) >= CloseGroupSize
            THEN When(outset # inr, "C11_OrderAgrees")
            ELSE When(e.out # Take(SortedIds(e.target, Peers(e)), CloseGroupSize), "C11_ClosestCount")
      \* the conversion of a crafted distance (0, 1, 2^255, 2^256-1, leading zero bytes, powers of ten ...)
      [] e.ev = "Conv" -> When(e.ab # Dist(e.a, e.b), "C11_Metric")
      [] OTHER -> {"Malformed"}

Init == l = 1 /\ viol = {}
Next == l <= N /\ l' = l + 1 /\ viol' = viol \cup {[clause |-> c, line |-> l] : c \in Falsified(Rec[l])}
Spec == Init /\ [][Next]_vars
Report == l = N + 1 => ndJsonSerialize(IOEnv.OUT, << [lines |-> N, violations |-> SetToSeq(viol)] >>)
=============================================================================
