---------------------------- MODULE DistanceTrace ----------------------------
(***************************************************************************)
(* Trace specification for C11: every line is one real call               *)
(*   Dist      NetworkAddress::distance + convert_distance_to_u256, both   *)
(*             directions and both forms (typed / raw record key)          *)
(*   Sort      sort_peers_by_address                                       *)
(*   InRange   the range filter used for replication candidates            *)
(*   Closest   Node::calculate_get_closest_peers (count and/or range)      *)
(*   Candidates SwarmDriver::get_replicate_candidates on a real node       *)
(* with the SHA-256 digests of the address bytes computed by the driver.   *)
(***************************************************************************)
EXTENDS Distance, TLC, Json, IOUtils

Rec == ndJsonDeserialize(IOEnv.TRACE)
N == Len(Rec)
VARIABLES l, viol
vars == <<l, viol>>

Peers(e) == [i \in 1..Len(e.peers) |-> e.peers[i]]
When(cond, name) == IF cond THEN {name} ELSE {}
Falsified(e) ==
    CASE e.ev = "Dist" ->
            LET d == Dist(e.a, e.b) IN
               When(e.ab # d \/ e.ba # d, "C11_Metric")                           \* value and symmetry
          \cup When((d = Zero) # e.same, "C11_Metric")                              \* zero only for equal addresses
          \cup When(e.abRaw # d, "C11_FormIndependent")
      [] e.ev = "Sort" ->
            LET want == Take(SortedIds(e.target, Peers(e)), e.n) IN
               When(Len(e.peers) >= CloseGroupSize /\ (e.res # "Ok" \/ e.out # want), "C11_ClosestCount")
          \cup When(Len(e.peers) < CloseGroupSize /\ e.res # "NotEnoughPeers", "C11_ClosestCount")
      [] e.ev = "InRange" ->
               When({e.out[i] : i \in 1..Len(e.out)} # InRangeIds(e.target, Peers(e), e.range), "C11_OrderAgrees")
      [] e.ev = "Closest" ->
            LET want == IF e.hasRange THEN InRangeIds(e.target, Peers(e), e.range)
                        ELSE IF e.hasN THEN {x \in DOMAIN Peers(e) : \E i \in 1..Len(Take(SortedIds(e.target, Peers(e)), e.n)) : Take(SortedIds(e.target, Peers(e)), e.n)[i] = x}
                        ELSE {}
            IN When({e.out[i] : i \in 1..Len(e.out)} # want, "C11_OrderAgrees")
          \cup When(~e.hasRange /\ e.hasN /\ e.out # Take(SortedIds(e.target, Peers(e)), e.n), "C11_ClosestCount")
      \* replication candidates of a real node: the peers within the responsible range when those are at least a close
      \* group, else the CloseGroupSize closest -- in both cases decided and ordered by the metric
      [] e.ev = "Candidates" ->
            LET inr == InRangeIds(e.target, Peers(e), e.range)
                outset == {e.out[i] : i \in 1..Len(e.out)} IN
            IF e.hasRange /\ Cardinality(inr) >= CloseGroupSize
            THEN When(outset # inr, "C11_OrderAgrees")
            ELSE When(e.out # Take(SortedIds(e.target, Peers(e)), CloseGroupSize), "C11_ClosestCount")
      [] OTHER -> {"Malformed"}

Init == l = 1 /\ viol = {}
Next == l <= N /\ l' = l + 1 /\ viol' = viol \cup {[clause |-> c, line |-> l] : c \in Falsified(Rec[l])}
Spec == Init /\ [][Next]_vars
Report == l = N + 1 => ndJsonSerialize(IOEnv.OUT, << [lines |-> N, violations |-> SetToSeq(viol)] >>)
=============================================================================
