------------------------------ MODULE Distance ------------------------------
(***************************************************************************)
(* Executable specification of the distance metric (property C11).         *)
(* An address is represented by the SHA-256 digest of its address bytes: a *)
(* sequence of 32 numbers 0..255 (computed by the driver with the sha2     *)
(* crate, independently of libp2p's KBucketKey).  Written from the         *)
(* statement of C11.                                                       *)
(***************************************************************************)
EXTENDS Naturals, Sequences, FiniteSets, Bitwise, SequencesExt

\* XOR of two digests, byte-wise; as a 256-bit big-endian integer it is ordered lexicographically
Dist(a, b) == [i \in 1..32 |-> a[i] ^^ b[i]]
Zero == [i \in 1..32 |-> 0]

\* 0: x < y   1: x = y   2: x > y   (big-endian integers as byte sequences of equal length)
RECURSIVE CmpFrom(_, _, _)
CmpFrom(x, y, i) == IF i > Len(x) THEN 1
                    ELSE IF x[i] < y[i] THEN 0
                    ELSE IF x[i] > y[i] THEN 2
                    ELSE CmpFrom(x, y, i + 1)
Cmp(x, y) == CmpFrom(x, y, 1)
Le(x, y) == Cmp(x, y) # 2
Lt(x, y) == Cmp(x, y) = 0

\* ids of `peers` (a function id -> digest) sorted by ascending distance to target; ties by id
SortedIds(target, peers) ==
    SortSeq(SetToSeq(DOMAIN peers),
            LAMBDA p, q : LET dp == Dist(target, peers[p])  dq == Dist(target, peers[q]) IN
                          Lt(dp, dq) \/ (dp = dq /\ p < q))
Take(s, n) == SubSeq(s, 1, IF n < Len(s) THEN n ELSE Len(s))

InRangeIds(target, peers, range) == {p \in DOMAIN peers : Le(Dist(target, peers[p]), range)}

\* "closest-peer selection returns the requested number of nearest peers in ascending distance, or
\*  reports that too few are known"
CloseGroupSize == 5
=============================================================================
