----------------------------- MODULE MCDistance -----------------------------
(***************************************************************************)
(* Partition enumeration for C11 and laws of the executable metric on a    *)
(* small digest universe (2-byte digests padded with zeros).               *)
(***************************************************************************)
EXTENDS Distance, TLC, Json, IOUtils

Kinds == {"peer", "chunk", "register", "scratchpad", "transaction", "recordkey"}
Sizes == {0, 1, 4, 5, 6, 21}
Counts == {0, 2, 5, 99}              \* 99 = more than there are
Ranges == {"none", "below", "equal", "above"}
Base == {[kind |-> k, size |-> s, count |-> c, range |-> r, near |-> n, variant |-> "plain"] :
             k \in Kinds, s \in Sizes, c \in Counts, r \in Ranges, n \in BOOLEAN}
\* degenerate peer sets and counts (CloseGroupSize = 5: sizes 4, 5, 6 are one below / exactly / one above a close group):
\*   counts 1 and 98 = "all but one" on plain sets;
\*   "self": the target is itself one of the peers (distance zero must sort first and lie within every range);
\*   "dup": a peer occurs twice;  "selfdup": the duplicated peer is the target
DegSizes == {1, 4, 5, 6, 21}
Degenerate ==
         {[kind |-> k, size |-> s, count |-> c, range |-> r, near |-> FALSE, variant |-> "plain"] :
             k \in {"peer", "chunk"}, s \in DegSizes, c \in {1, 98}, r \in Ranges}
    \cup {[kind |-> "peer", size |-> s, count |-> c, range |-> r, near |-> FALSE, variant |-> v] :
             s \in DegSizes, c \in {1, 5, 98, 99}, r \in Ranges, v \in {"self", "selfdup"}}
    \cup {[kind |-> k, size |-> s, count |-> c, range |-> r, near |-> FALSE, variant |-> "dup"] :
             k \in {"peer", "chunk"}, s \in DegSizes \ {1}, c \in {1, 5, 98, 99}, r \in Ranges}
Cases == Base \cup Degenerate

Small == {[i \in 1..32 |-> IF i = 1 THEN x ELSE IF i = 32 THEN y ELSE 0] : x \in {0, 1, 128, 255}, y \in {0, 1, 255}}

VARIABLE c
Init == c \in Small \X Small \X Small
Next == UNCHANGED c
Spec == Init /\ [][Next]_c

\* the metric's laws
Symmetric == Dist(c[1], c[2]) = Dist(c[2], c[1])
ZeroIffEqual == (Dist(c[1], c[2]) = Zero) <=> (c[1] = c[2])
\* XOR metric: d(a,c) = d(a,b) xor d(b,c)
XorTriangle == Dist(c[1], c[3]) = [i \in 1..32 |-> Dist(c[1], c[2])[i] ^^ Dist(c[2], c[3])[i]]
OrderTotal == LET x == Dist(c[1], c[2])  y == Dist(c[1], c[3]) IN Cmp(x, y) \in {0, 1, 2} /\ (Cmp(x, y) = 1 <=> x = y)
                                                                 /\ (Lt(x, y) <=> Cmp(y, x) = 2)

ASSUME IF "CASES" \in DOMAIN IOEnv THEN ndJsonSerialize(IOEnv.CASES, SetToSeq(Cases)) ELSE TRUE
=============================================================================
