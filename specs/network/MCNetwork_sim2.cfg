SPECIFICATION Spec
CONSTANTS
  NN = 2
  Fams <- FamsTxsReg
  MaxUpd = 4
  MaxIvl = 5
  MaxDrop = 2
  MaxExp = 2
  KnownPad = TRUE
  NetServe = FALSE
  MinChaos = 10
INVARIANTS ConvergedWhenDone FetcherSane Emit
CHECK_DEADLOCK FALSE
