------------------------------ MODULE MCNetwork ------------------------------
(***************************************************************************)
(* The network model as a state machine.                                   *)
(*                                                                         *)
(* chaos phase: the environment hands records to nodes (accepted uploads / *)
(* updates), nodes run their periodic replication, and every message in    *)
(* flight is delivered IN ANY ORDER or LOST; fetch deadlines pass.         *)
(* Settle: the messages still in flight are lost, every in-flight fetch    *)
(* runs out of time.  clean phase: two full cycles of periodic replication *)
(* with every message delivered (oldest first).  Then all nodes must hold, *)
(* for every address, the join of what the nodes held at Settle ("after    *)
(* enough rounds both hold the same merged register or transaction set").  *)
(*                                                                         *)
(* hist is the behaviour as a list of steps (hidden from the state graph   *)
(* by VIEW); at the end of a behaviour it is printed as a scenario that    *)
(* the driver replays on real nodes.                                       *)
(***************************************************************************)
EXTENDS Network, Json, IOUtils, SequencesExt

CONSTANTS MaxUpd, MaxIvl, MaxDrop, MaxExp, KnownPad,
          NetServe,     \* TRUE: the network-wide read after a failed direct fetch is answered (by the lowest-numbered other holder)
          MinChaos      \* simulation only: Settle not before this many steps (0 in the exhaustive configurations)
\* address universes of the configurations
FamsRegChunk == <<"reg", "chunk">>
FamsReg == <<"reg">>
FamsTxs == <<"txs">>
FamsTxsReg == <<"txs", "reg">>
FamsPadReg == <<"pad", "reg">>
FamsAll == <<"reg", "txs", "chunk">>

Contents(f) == CASE f = "chunk" -> {[kind |-> "chunk"]}
                 [] f = "pad" -> {[kind |-> "pad", c |-> c] : c \in 1..2}
                 [] f = "txs" -> {[kind |-> "txs", ids |-> s] : s \in (SUBSET {1, 2}) \ {{}}}
                 [] f = "reg" -> {[kind |-> "reg", ops |-> s] : s \in SUBSET {1, 2}}

VARIABLES content, fst, msgs, nid, phase, left, cyc, settled, hist
vars == <<content, fst, msgs, nid, phase, left, cyc, settled, hist>>
view == <<content, fst, msgs, phase, left, cyc, settled>>

Init == /\ content = [n \in Node |-> BlankNode]
        /\ fst = [n \in Node |-> F!Init0]
        /\ msgs = {} /\ nid = 1 /\ phase = "chaos"
        /\ left = [upd |-> MaxUpd, ivl |-> MaxIvl, drop |-> MaxDrop, exp |-> MaxExp]
        /\ cyc = <<>> /\ settled = content /\ hist = <<>>

\* give identities to the messages sent in a step (any fixed order); identities only order the messages by age,
\* so they are kept dense (1..number of messages in flight)
Stamp(out) == LET s == SetToSeq(out) IN {[id |-> nid + i - 1, m |-> s[i]] : i \in 1..Len(s)}
Renum(S) == {[id |-> Cardinality({y \in S : y.id <= x.id}), m |-> x.m] : x \in S}
Send(out, consumed) == LET all == (msgs \ consumed) \cup Stamp(out) IN
                       /\ msgs' = Renum(all)
                       /\ nid' = Cardinality(all) + 1
\* a message is named by what it is and by its rank (age) among the messages in flight that look alike
Alike(x, y) == x.m.k = y.m.k /\ x.m.from = y.m.from /\ x.m.to = y.m.to /\ x.m.a = y.m.a
MDesc(x) == [k |-> x.m.k, from |-> x.m.from, to |-> x.m.to, a |-> x.m.a,
             ord |-> 1 + Cardinality({y \in msgs : Alike(x, y) /\ y.id < x.id})]
CJ(c) == CASE c.kind = "none" -> [fam |-> "none"]
           [] c.kind = "chunk" -> [fam |-> "chunk"]
           [] c.kind = "pad" -> [fam |-> "pad", c |-> c.c, content |-> c.c]
           [] c.kind = "txs" -> [fam |-> "txs", ids |-> SetToSeq(c.ids)]
           [] c.kind = "reg" -> [fam |-> "reg", ops |-> SetToSeq(c.ops)]

\* ------------------------------------------------------------------ steps shared by both phases
CoreUpdate(n, a, c) ==
    \E r \in OnStore(content[n], fst[n], n, a, c, FALSE) :
       /\ content' = [content EXCEPT ![n] = r.c] /\ fst' = [fst EXCEPT ![n] = r.f]
       /\ Send(r.out, {})
CoreInterval(n) ==
    /\ Send(Advertise(content[n], n), {})
    /\ UNCHANGED <<content, fst>>
DoUpdate(n, a, c) == CoreUpdate(n, a, c) /\ hist' = Append(hist, [ev |-> "Update", node |-> n, a |-> a, rec |-> CJ(c)])
DoInterval(n) == CoreInterval(n) /\ hist' = Append(hist, [ev |-> "Interval", node |-> n])
CoreDeliver(x) ==
    LET m == x.m  n == m.to IN
    /\ \/ /\ m.k = "adv"
          /\ \E r \in OnAdv(content[n], fst[n], n, m.from, m.keys) :
                /\ fst' = [fst EXCEPT ![n] = r.f] /\ Send(r.out, {x}) /\ UNCHANGED content
       \/ /\ m.k = "qry"
          /\ Send({OnQry(content[n], n, m.from, m.a)}, {x}) /\ UNCHANGED <<content, fst>>
       \/ /\ m.k = "rsp"
          /\ LET copy == IF m.c.kind = "none" /\ NetServe THEN NetCopy(content, n, m.a) ELSE m.c IN
             \E r \in OnStore(content[n], fst[n], n, m.a, copy, TRUE) :
                /\ content' = [content EXCEPT ![n] = r.c] /\ fst' = [fst EXCEPT ![n] = r.f]
                /\ Send(r.out, {x})
\* a message is lost; the loss of a fetch request or of its answer makes the requester fall back to the network-wide read
CoreDrop(x) ==
    LET m == x.m  n == IF m.k = "qry" THEN m.from ELSE m.to IN
    IF m.k = "adv" \/ ~NetServe THEN Send({}, {x}) /\ UNCHANGED <<content, fst>>
    ELSE \E r \in OnStore(content[n], fst[n], n, m.a, NetCopy(content, n, m.a), TRUE) :
            /\ content' = [content EXCEPT ![n] = r.c] /\ fst' = [fst EXCEPT ![n] = r.f]
            /\ Send(r.out, {x})

DoDeliver(x) == CoreDeliver(x) /\ hist' = Append(hist, [ev |-> "Deliver", m |-> MDesc(x)])

\* ------------------------------------------------------------------ chaos phase
Update(n, a, c) == /\ phase = "chaos" /\ left.upd > 0
                   /\ Join(content[n][a], c) # content[n][a]          \* an update the node accepts
                   /\ DoUpdate(n, a, c)
                   /\ left' = [left EXCEPT !.upd = @ - 1] /\ UNCHANGED <<phase, cyc, settled>>
Interval(n) == /\ phase = "chaos" /\ left.ivl > 0 /\ AdvKeys(content[n]) # {}
               /\ DoInterval(n)
               /\ left' = [left EXCEPT !.ivl = @ - 1] /\ UNCHANGED <<phase, cyc, settled>>
Deliver(x) == /\ phase = "chaos" /\ x \in msgs
              /\ DoDeliver(x) /\ UNCHANGED <<phase, left, cyc, settled>>
Drop(x) == /\ phase = "chaos" /\ x \in msgs /\ left.drop > 0
           /\ CoreDrop(x) /\ left' = [left EXCEPT !.drop = @ - 1]
           /\ hist' = Append(hist, [ev |-> "Drop", m |-> MDesc(x)])
           /\ UNCHANGED <<phase, cyc, settled>>
Expire(n, e) == /\ phase = "chaos" /\ left.exp > 0 /\ e \in fst[n].og \ fst[n].ogx
                /\ \E f \in OnExpire(fst[n], e) : fst' = [fst EXCEPT ![n] = f]
                /\ left' = [left EXCEPT !.exp = @ - 1]
                /\ hist' = Append(hist, [ev |-> "Expire", node |-> n, a |-> e.k, h |-> e.h])
                /\ UNCHANGED <<content, msgs, nid, phase, cyc, settled>>
Settle == /\ phase = "chaos"
          /\ (Len(hist) >= MinChaos \/ (msgs = {} /\ left.upd = 0 /\ left.ivl = 0))
          /\ phase' = "clean" /\ msgs' = {} /\ nid' = 1 /\ settled' = content
          /\ fst' = [n \in Node |-> [fst[n] EXCEPT !.ogx = fst[n].og]]
          /\ hist' = Append(hist, [ev |-> "Settle"])
          /\ UNCHANGED <<content, left, cyc>>

\* ------------------------------------------------------------------ clean phase
Oldest == CHOOSE x \in msgs : \A y \in msgs : x.id <= y.id
NextNode == (Len(cyc) % NN) + 1
CInterval == /\ phase = "clean" /\ msgs = {} /\ Len(cyc) < 2 * NN
             /\ DoInterval(NextNode) /\ cyc' = Append(cyc, NextNode)
             /\ UNCHANGED <<phase, left, settled>>
CDeliver == /\ phase = "clean" /\ msgs # {}
            /\ DoDeliver(Oldest) /\ UNCHANGED <<phase, left, cyc, settled>>
Finish == /\ phase = "clean" /\ msgs = {} /\ Len(cyc) = 2 * NN
          /\ phase' = "done" /\ hist' = Append(hist, [ev |-> "Check"])
          /\ UNCHANGED <<content, fst, msgs, nid, left, cyc, settled>>

Next == \/ \E n \in Node, a \in Addr : \E c \in Contents(Fams[a]) : Update(n, a, c)
        \/ \E n \in Node : Interval(n)
        \/ \E x \in msgs : Deliver(x) \/ Drop(x)
        \/ \E n \in Node : \E e \in fst[n].og : Expire(n, e)
        \/ Settle \/ CInterval \/ CDeliver \/ Finish
Spec == Init /\ [][Next]_vars

\* ------------------------------------------------------------------ properties of the model
\* known finding C09-scratchpad-versions-indistinguishable: once every node holds SOME version of a scratchpad
\* the versions are never exchanged (they share one advertised type)
PadStuck(a) == KnownPad /\ Fams[a] = "pad" /\ \A n \in Node : content[n][a].kind = "pad"
ConvergedWhenDone == phase = "done" =>
    \A a \in Addr : (\A n \in Node : content[n][a] = JoinAt(settled, a, Node)) \/ PadStuck(a)
\* nothing is ever lost or invented anywhere: what a node holds is below the join of everything handed in
Monotone == [][\A n \in Node, a \in Addr : Join(content[n][a], content'[n][a]) = content'[n][a]]_vars
\* never two fetches of one record version in flight at a node (C08 at network level)
FetcherSane == \A n \in Node : \A e1, e2 \in fst[n].og : F!KT(e1) = F!KT(e2) => e1 = e2
\* the listed known finding must really be in the model
PadDivergenceExists == ~(phase = "done" /\ \E a \in Addr : Fams[a] = "pad" /\ ~(\A n \in Node : content[n][a] = JoinAt(settled, a, Node)))

Emit == phase = "done" => PrintT(<<"SCN", ToJson([nodes |-> NN, fams |-> Fams, netserve |-> NetServe, steps |-> hist])>>)

(***************************************************************************)
(* Liveness ("periodic replication makes them converge"): no phases here.  *)
(* Nodes advertise again and again (a node advertises when none of its     *)
(* advertisements is still in flight), messages are delivered in any order *)
(* or (MaxDrop times) lost, and a fetch whose request / answer is no longer *)
(* under way eventually runs out of time.  Fairness = the environment      *)
(* assumptions: every node keeps advertising, the oldest message in flight *)
(* is eventually delivered, EVERY orphaned fetch eventually times out.  Then,   *)
(* once the (MaxUpd) hand-ins are over, all nodes agree for ever.          *)
(***************************************************************************)
Orphaned(n, e) == ~\E x \in msgs : \/ (x.m.k = "qry" /\ x.m.from = n /\ x.m.to = e.h /\ x.m.a = e.k)
                                    \/ (x.m.k = "rsp" /\ x.m.to = n /\ x.m.from = e.h /\ x.m.a = e.k)
Quiet == UNCHANGED <<phase, cyc, settled, hist>>
LUpdate(n, a, c) == /\ left.upd > 0 /\ Join(content[n][a], c) # content[n][a]
                    /\ CoreUpdate(n, a, c) /\ left' = [left EXCEPT !.upd = @ - 1] /\ Quiet
LInterval(n) == /\ AdvKeys(content[n]) # {} /\ ~\E x \in msgs : x.m.k = "adv" /\ x.m.from = n
                /\ CoreInterval(n) /\ UNCHANGED left /\ Quiet
LDeliver(x) == x \in msgs /\ CoreDeliver(x) /\ UNCHANGED left /\ Quiet
LDeliverOldest == msgs # {} /\ LDeliver(Oldest)
LDrop(x) == /\ x \in msgs /\ left.drop > 0 /\ CoreDrop(x) /\ left' = [left EXCEPT !.drop = @ - 1] /\ Quiet
LExpire(n, e) == /\ e \in fst[n].og \ fst[n].ogx /\ Orphaned(n, e)
                 /\ \E f \in OnExpire(fst[n], e) : fst' = [fst EXCEPT ![n] = f]
                 /\ UNCHANGED <<content, msgs, nid, left>> /\ Quiet
LExpireSome == \E n \in Node : \E e \in fst[n].og : LExpire(n, e)
LiveNext == \/ \E n \in Node, a \in Addr : \E c \in Contents(Fams[a]) : LUpdate(n, a, c)
            \/ \E n \in Node : LInterval(n)
            \/ \E x \in msgs : LDeliver(x) \/ LDrop(x)
            \/ LExpireSome
LiveSpec == /\ Init /\ [][LiveNext]_vars
            /\ \A n \in Node : WF_vars(LInterval(n))
            /\ WF_vars(LDeliverOldest)
            /\ \A n \in Node, e \in F!Entry : WF_vars(LExpire(n, e))
\* negative control: without the time-out of orphaned fetches (no fairness on it at all) a fetch whose request was lost stays
\* in flight for ever and blocks every later fetch of that record version -- agreement is then never reached.
\* (Before fix cbec58d in /repo even "SOME orphaned fetch times out" was not enough: fetched copies that changed nothing left
\* entries in flight whose repeated expiry satisfied that fairness condition while the lost fetch never expired.)
LiveSpecWeak == /\ Init /\ [][LiveNext]_vars
                /\ \A n \in Node : WF_vars(LInterval(n))
                /\ WF_vars(LDeliverOldest)
AllAgree == \A a \in Addr : (\A n \in Node : content[n][a] = JoinAt(content, a, Node)) \/ PadStuck(a)
EventuallyAgree == <>[]AllAgree
=============================================================================
