SPECIFICATION Spec
CONSTANTS
  NN = 3
  Fams <- TraceFams
  KnownMask = {"C09-scratchpad-versions-indistinguishable"}
INVARIANT Report
CHECK_DEADLOCK FALSE
