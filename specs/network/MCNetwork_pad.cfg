SPECIFICATION Spec
CONSTANTS
  NN = 2
  Fams <- FamsPadReg
  MaxUpd = 2
  MaxIvl = 2
  MaxDrop = 1
  MaxExp = 1
  KnownPad = TRUE
  NetServe = FALSE
  MinChaos = 0
VIEW view
INVARIANTS ConvergedWhenDone FetcherSane
PROPERTY Monotone
CHECK_DEADLOCK FALSE
