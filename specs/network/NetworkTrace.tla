----------------------------- MODULE NetworkTrace -----------------------------
(***************************************************************************)
(* Trace specification of the network model: each line is one step on 2-3  *)
(* REAL nodes (drv_netw): a record handed to a node, a node's periodic     *)
(* replication, one message delivered or lost, a fetch deadline passing,   *)
(* Settle, the final Check.  Every line carries the state after the step:  *)
(* what every node holds for every address, every node's fetcher queue /   *)
(* in-flight set, and the bag of messages in flight.                       *)
(*                                                                         *)
(* Verdict: the C09 clauses of Network.tla on the observed before / after  *)
(* states, and C09_Converge at Check against the join of what the nodes    *)
(* held at Settle.  The handler operators of Network.tla (with the fetcher *)
(* model of ReplFetcher.tla inside) run alongside as the drift predicate.  *)
(***************************************************************************)
EXTENDS Network, Json, IOUtils, SequencesExt

Rec == ndJsonDeserialize(IOEnv.TRACE)
N == Len(Rec)
CONSTANT KnownMask
\* the network model is instantiated with the widest address universe a run may use (the families of a
\* run's addresses come with its Reset line)
TraceFams == <<"any", "any", "any">>
ASSUME Len(Fams) = 3

VARIABLES l, prev, nn, na, fam, settled, ogx, viol, known, drift, stats
vars == <<l, prev, nn, na, fam, settled, ogx, viol, known, drift, stats>>

SetOf(seq) == {seq[i] : i \in 1..Len(seq)}
Content(j) == CASE j.kind = "none" -> NoneC
                [] j.kind = "chunk" -> [kind |-> "chunk"]
                [] j.kind = "pad" -> [kind |-> "pad", c |-> j.c]
                [] j.kind = "txs" -> [kind |-> "txs", ids |-> SetOf(j.ids)]
                [] j.kind = "reg" -> [kind |-> "reg", ops |-> SetOf(j.ops)]
                [] OTHER -> [kind |-> j.kind]
\* the type number of an advertised / queued version (all scratchpads share one type)
TypeNo(j) == IF j.kind = "pad" THEN 1 ELSE IF j.kind \in {"none", "chunk", "txs", "reg"} THEN TId(Content(j)) ELSE 99

Active == 1..nn
Used == 1..na
ContentOf(s) == [n \in Node |-> [a \in Addr |-> IF n <= Len(s.content) /\ a <= Len(s.content[n]) THEN Content(s.content[n][a]) ELSE NoneC]]
BytesAt(s, n, a) == s.content[n][a].bytes
Entries(seq) == {[k |-> seq[i].a, t |-> TypeNo(seq[i].t), h |-> seq[i].h] : i \in 1..Len(seq)}
FetcherOf(s) == [n \in Node |-> IF n <= Len(s.fetchers) THEN [tf |-> Entries(s.fetchers[n].tf), og |-> Entries(s.fetchers[n].og)]
                                                      ELSE [tf |-> {}, og |-> {}]]
MsgOf(j) == [k |-> j.k, from |-> j.from, to |-> j.to,
             keys |-> {<<j.keys[i].a, TypeNo(j.keys[i].t)>> : i \in 1..Len(j.keys)},
             a |-> j.a, c |-> Content(j.c)]
MsgsOf(s) == {[id |-> s.msgs[i].id, m |-> MsgOf(s.msgs[i])] : i \in 1..Len(s.msgs)}
SentOf(e) == {x.m : x \in {y \in MsgsOf(e.state) : y.id \in SetOf(e.sent)}}
BlankState == [content |-> <<>>, fetchers |-> <<>>, msgs |-> <<>>]

When(cond, name) == IF cond THEN {name} ELSE {}

\* a network-wide read was served in this step (the fall-back after a failed direct fetch): the copy is stored like a fetched one
NetRead(e) == e.ev \in {"Deliver", "Drop"} /\ "netreads" \in DOMAIN e /\ Len(e.netreads) > 0
\* the observed step in the form the clauses of Network.tla take
StepOf(e) ==
    LET before == ContentOf(prev)  after == ContentOf(e.state) IN
    [ev |-> IF NetRead(e) THEN "DeliverRsp"
            ELSE IF e.ev = "Deliver" THEN (IF e.m.k = "adv" THEN "DeliverAdv" ELSE IF e.m.k = "qry" THEN "DeliverQry" ELSE "DeliverRsp") ELSE e.ev,
     n |-> IF NetRead(e) THEN e.netreads[1].node
           ELSE IF e.ev \in {"Update", "Interval", "Expire"} THEN e.node ELSE IF e.ev = "Deliver" THEN e.m.to ELSE 1,
     a |-> IF NetRead(e) THEN e.netreads[1].a
           ELSE IF e.ev = "Update" THEN e.a ELSE IF e.ev = "Deliver" /\ e.m.k # "adv" THEN e.m.a ELSE 1,
     before |-> before, after |-> after,
     input |-> IF NetRead(e) THEN Content(e.netreads[1].c)
               ELSE IF e.ev = "Update" THEN Content(e.input) ELSE IF e.ev = "Deliver" /\ e.m.k = "rsp" THEN Content(e.m.c) ELSE NoneC,
     sent |-> SentOf(e), active |-> Active]

\* byte-identical copies of immutable data: a chunk that arrived through replication has the bytes of the copy sent
ChunkBytesDiffer(e) ==
    e.ev = "Deliver" /\ e.m.k = "rsp" /\ e.m.c.kind = "chunk" /\ e.m.a \in Used
      /\ e.state.content[e.m.to][e.m.a].kind = "chunk" /\ e.state.content[e.m.to][e.m.a].bytes # e.m.c.bytes

\* C08 at node level, "every fetch leaves the in-flight set when the record arrives": once the holder's answer for
\* address a has been handed to the requester, no fetch of that version from that holder is in flight there any more
\* (whether or not the copy changed what the requester holds)
ArrivedStillInFlight(e) ==
    e.ev = "Deliver" /\ e.m.k = "rsp" /\ e.m.c.kind \notin {"none", "unknown"}
      /\ \E y \in FetcherOf(e.state)[e.m.to].og : y.k = e.m.a /\ y.h = e.m.from /\ y.t = TypeNo(e.m.c)

\* the model's fetcher state of node n before the step: observed queue / in-flight set + the expiries the trace caused
ModelF(n) == [tf |-> FetcherOf(prev)[n].tf, tfx |-> {}, og |-> FetcherOf(prev)[n].og,
              ogx |-> ogx[n] \cap FetcherOf(prev)[n].og, range |-> 0, far |-> 0]
SameF(f, n, e) == f.tf = FetcherOf(e.state)[n].tf /\ f.og = FetcherOf(e.state)[n].og
\* does the handler model explain what node n did in this step?
Explained(e) ==
    LET x == StepOf(e)  n == x.n  cn == x.before[n] IN
    CASE x.ev = "Update" -> \E r \in OnStore(cn, ModelF(n), n, x.a, x.input, FALSE) : r.c = x.after[n] /\ SameF(r.f, n, e) /\ r.out = x.sent
      [] x.ev = "Interval" -> {m \in Advertise(cn, n) : m.to \in Active} = x.sent
      [] x.ev = "DeliverAdv" -> \E r \in OnAdv(cn, ModelF(n), n, e.m.holder, MsgOf(e.m).keys) : SameF(r.f, n, e) /\ r.out = x.sent
      [] x.ev = "DeliverQry" -> {OnQry(cn, n, e.m.from, x.a)} = x.sent
      [] x.ev = "DeliverRsp" -> \E r \in OnStore(cn, ModelF(n), n, x.a, x.input, TRUE) : r.c = x.after[n] /\ SameF(r.f, n, e) /\ r.out = x.sent
      [] OTHER -> TRUE

ConvergeFalsified(e) ==
    LET final == ContentOf(e.state) IN
    {a \in Used : \E n \in Active : final[n][a] # JoinAt(settled, a, Active)}
\* known finding: once every node holds some version of a scratchpad the versions are never exchanged
PadStuck(e, a) == fam[a] = "pad" /\ \A n \in Active : ContentOf(e.state)[n][a].kind = "pad"

Init == /\ l = 1 /\ prev = BlankState /\ nn = 2 /\ na = 1 /\ fam = <<>> /\ settled = [n \in Node |-> BlankNode]
        /\ ogx = [n \in Node |-> {}] /\ viol = {} /\ known = {} /\ drift = {}
        /\ stats = [steps |-> 0, changed |-> 0, fetches |-> 0, lost |-> 0, skipped |-> 0]
Next ==
    /\ l <= N /\ l' = l + 1
    /\ LET e == Rec[l] IN
       IF e.ev = "Reset" THEN
            /\ prev' = BlankState /\ nn' = e.nodes /\ na' = Len(e.fams) /\ fam' = e.fams
            /\ settled' = [n \in Node |-> BlankNode] /\ ogx' = [n \in Node |-> {}]
            /\ UNCHANGED <<viol, known, drift, stats>>
       ELSE IF e.ev \in {"Update", "Interval", "Deliver", "Drop", "Expire", "Settle", "Skipped"} THEN
            LET x == StepOf(e)
                f == StepFalsified(x) \cup When(ChunkBytesDiffer(e), "C09_AcceptHeld")
                                      \cup When(ArrivedStillInFlight(e), "C08_LeavesInFlight") IN
            /\ viol' = viol \cup {[clause |-> c, line |-> l] : c \in f}
            /\ drift' = IF Explained(e) THEN drift ELSE drift \cup {l}
            /\ prev' = e.state
            /\ settled' = IF e.ev = "Settle" THEN ContentOf(e.state) ELSE settled
            /\ ogx' = IF e.ev = "Settle" THEN [n \in Node |-> FetcherOf(e.state)[n].og]
                      ELSE IF e.ev = "Expire" THEN [ogx EXCEPT ![e.node] = @ \cup {y \in FetcherOf(e.state)[e.node].og : y.k = e.a /\ y.h = e.h}]
                      ELSE [n \in Node |-> ogx[n] \cap FetcherOf(e.state)[n].og]
            /\ stats' = [stats EXCEPT !.steps = @ + 1,
                                      !.changed = @ + (IF x.after # x.before THEN 1 ELSE 0),
                                      !.fetches = @ + Cardinality({m \in x.sent : m.k = "qry"}),
                                      !.lost = @ + (IF e.ev = "Drop" THEN 1 ELSE IF e.ev = "Settle" THEN e.lost ELSE 0),
                                      !.skipped = @ + (IF e.ev = "Skipped" THEN 1 ELSE 0)]
            /\ UNCHANGED <<nn, na, fam, known>>
       ELSE IF e.ev = "Check" THEN
            LET bad == ConvergeFalsified(e) IN
            /\ viol' = viol \cup {[clause |-> "C09_Converge", line |-> l] : a \in {b \in bad : ~("C09-scratchpad-versions-indistinguishable" \in KnownMask /\ PadStuck(e, b))}}
            /\ known' = known \cup {[kf |-> "C09-scratchpad-versions-indistinguishable", clause |-> "C09_Converge", line |-> l] :
                                        a \in {b \in bad : "C09-scratchpad-versions-indistinguishable" \in KnownMask /\ PadStuck(e, b)}}
            /\ UNCHANGED <<prev, nn, na, fam, settled, ogx, drift, stats>>
       ELSE /\ viol' = viol \cup {[clause |-> "Malformed", line |-> l]}
            /\ UNCHANGED <<prev, nn, na, fam, settled, ogx, known, drift, stats>>
Spec == Init /\ [][Next]_vars
Report == l = N + 1 => ndJsonSerialize(IOEnv.OUT, << [lines |-> N, violations |-> SetToSeq(viol), known |-> SetToSeq(known),
                                                       drift |-> SetToSeq(drift), stats |-> stats] >>)
=============================================================================
