SPECIFICATION Spec
CONSTANTS
  NN = 3
  Fams <- FamsAll
  MaxUpd = 4
  MaxIvl = 5
  MaxDrop = 2
  MaxExp = 2
  KnownPad = TRUE
  NetServe = FALSE
  MinChaos = 14
INVARIANTS ConvergedWhenDone FetcherSane Emit
CHECK_DEADLOCK FALSE
