SPECIFICATION LiveSpec
CONSTANTS
  NN = 2
  Fams <- FamsRegChunk
  MaxUpd = 2
  MaxIvl = 0
  MaxDrop = 1
  MaxExp = 0
  KnownPad = TRUE
  NetServe = FALSE
  MinChaos = 0
VIEW view
INVARIANT FetcherSane
PROPERTY EventuallyAgree
CHECK_DEADLOCK FALSE
