------------------------------- MODULE Network -------------------------------
(***************************************************************************)
(* Composition of the node-level models into a small network (growth of    *)
(* the specification beyond single objects; second engine of C09).         *)
(*                                                                         *)
(* NN nodes, each = a store content per address (the version lattice of    *)
(* Replication.tla) + the replication fetcher of ReplFetcher.tla           *)
(* (INSTANCE: the very operators C08 is checked with).  Between the nodes  *)
(* there is a BAG OF MESSAGES that the environment delivers in any order   *)
(* or loses:                                                               *)
(*    adv  Cmd::Replicate{holder, keys}      (cmd.rs try_interval_replication)       *)
(*    qry  Query::GetReplicatedRecord        (replication.rs fetch_replication_keys) *)
(*    rsp  the holder's answer: the record it holds NOW (node.rs handle_query)       *)
(* One operator per handler, each returning the set of possible results    *)
(* [c (node content), f (fetcher state), out (messages sent)], used alike  *)
(* by the model checker (MCNetwork) and, as the drift predicate, by the    *)
(* trace specification (NetworkTrace) that judges runs of REAL nodes.      *)
(*                                                                         *)
(*    OnAdv    event/request_response.rs add_keys_to_replication_fetcher   *)
(*             -> ReplicationFetcher::add_keys -> KeysToFetchForReplication*)
(*    OnQry    node.rs handle_query(GetReplicatedRecord)                   *)
(*    OnStore  put_validation.rs store_replicated_in_record -> (if it      *)
(*             changes what is held) PutLocalRecord -> cmd.rs: fetcher     *)
(*             notify_about_new_put -> further fetches                     *)
(*    Advertise cmd.rs try_interval_replication                            *)
(***************************************************************************)
EXTENDS Replication, TLC

CONSTANTS Fams            \* sequence: the family of each address, e.g. <<"reg", "chunk">>
Addr == 1..Len(Fams)

\* the advertised record type as a number for the fetcher (0 = not held).  All scratchpads share one
\* type; a register / transaction record is typed by its content.
Bit(S, i) == IF i \in S THEN 1 ELSE 0
TId(c) == CASE c.kind = "none" -> 0
            [] c.kind = "chunk" -> 1
            [] c.kind = "pad" -> 1
            [] c.kind = "txs" -> 1 + Bit(c.ids, 1) + 2 * Bit(c.ids, 2)
            [] c.kind = "reg" -> 1 + Bit(c.ops, 1) + 2 * Bit(c.ops, 2)

F == INSTANCE ReplFetcher WITH NK <- Len(Fams), NT <- 4, NH <- NN, MaxPar <- 20

HeldOf(cn) == [a \in Addr |-> TId(cn[a])]
BlankNode == [a \in Addr |-> NoneC]

\* messages (without their identity): who, to whom, what
Adv(from, to, keys) == [k |-> "adv", from |-> from, to |-> to, keys |-> keys, a |-> 0, c |-> NoneC]
Qry(from, to, a)    == [k |-> "qry", from |-> from, to |-> to, keys |-> {}, a |-> a, c |-> NoneC]
Rsp(from, to, a, c) == [k |-> "rsp", from |-> from, to |-> to, keys |-> {}, a |-> a, c |-> c]
Queries(n, issued) == {Qry(n, e.h, e.k) : e \in issued}
NodeRes(cn, fn, out) == [c |-> cn, f |-> fn, out |-> out]

\* ------------------------------------------------------------------ handlers of one node
\* the keys a node advertises: everything it lists, with the type of the version it holds
AdvKeys(cn) == {<<a, TId(cn[a])>> : a \in {x \in Addr : cn[x].kind # "none"}}
Advertise(cn, n) == IF AdvKeys(cn) = {} THEN {} ELSE {Adv(n, j, AdvKeys(cn)) : j \in Node \ {n}}

\* an advertisement from holder h arrives at node n (all nodes of the model are close to each other)
OnAdv(cn, fn, n, h, keys) ==
    IF h = n THEN {NodeRes(cn, fn, {})}
    ELSE {NodeRes(cn, r.st, Queries(n, r.issued)) : r \in F!AddKeys(fn, h, keys, HeldOf(cn))}

\* a fetch request arrives at holder n: it answers with what it holds now (none: an error answer)
OnQry(cn, n, requester, a) == Rsp(n, requester, a, cn[a])

\* a record arrives at node n through the replication path (a fetched copy, or a copy handed in by the
\* environment): merged with what is held; a chunk / scratchpad / register is written only when that CHANGES
\* what is held, a transaction set is written every time.  A write tells the fetcher through the PutLocalRecord
\* handler (notify_about_new_put: every fetch of the key is over, further fetches may start); a copy that changes
\* nothing is reported as an early completion of the fetch of THAT version (replication.rs, after fix "the fetch
\* of a record version is over when the holder's copy arrived" -- before it the entry stayed in flight until its
\* deadline and the holder that had answered was reported as failed)
\* (fetched = the copy is the answer to a fetch; FALSE = handed in by the environment)
OnStore(cn, fn, n, a, theirs, fetched) ==
    LET new == IF theirs.kind = "none" THEN cn[a] ELSE Merge(cn[a], theirs) IN
    IF theirs.kind = "none" THEN {NodeRes(cn, fn, {})}
    ELSE IF new = cn[a] /\ theirs.kind # "txs"
         THEN IF fetched THEN {NodeRes(cn, r.st, Queries(n, r.issued)) : r \in F!NotifyEarly(fn, a, TId(theirs))}
                         ELSE {NodeRes(cn, fn, {})}
    ELSE {NodeRes([cn EXCEPT ![a] = new], r.st, Queries(n, r.issued)) : r \in F!NotifyPut(fn, a, TId(new))}

\* a direct fetch failed (request or answer lost, or the holder answered "not found"): the requester reads the record
\* from the network at large (replication.rs: get_record_from_network with quorum one).  When that read is served it
\* returns the copy of some node that holds the record -- in this model the lowest-numbered other holder -- and the copy
\* is stored like a fetched one; when nobody answers nothing happens (the fetch stays in flight until its deadline)
NetCopy(content, n, a) == LET H == {j \in Node \ {n} : content[j][a].kind # "none"} IN
                          IF H = {} THEN NoneC ELSE content[CHOOSE j \in H : \A i \in H : j <= i][a]

\* the deadline of an in-flight fetch passes
OnExpire(fn, e) == {r.st : r \in F!ExpireFetch(fn, e)}

\* ------------------------------------------------------------------ what the network ought to reach
JoinAt(content, a, S) == JoinAll([n \in Node |-> content[n][a]], S)
Converged(content, a, S) == \A n \in S : content[n][a] = JoinAt(content, a, S)

(***************************************************************************)
(* Clauses of C09 on one observed step of the network                      *)
(*   x = [ev, n, a, before, after (content of all nodes), input (content   *)
(*        handed in / carried by the delivered message), sent (messages    *)
(*        that appeared), active (the nodes that exist)]                   *)
(***************************************************************************)
\* "Any record a node has accepted and stored is accepted by an honest in-range neighbour with spare capacity
\*  when fetched through replication": the fetched copy is merged into what the receiver holds -- nothing
\*  else changes anywhere, and nothing is lost
AcceptHeld(x) ==
    /\ x.ev \in {"DeliverRsp", "Update"} =>
          /\ x.after[x.n][x.a] = (IF x.input.kind = "none" THEN x.before[x.n][x.a] ELSE Join(x.before[x.n][x.a], x.input))
          /\ \A m \in x.active, b \in Addr : (m # x.n \/ b # x.a) => x.after[m][b] = x.before[m][b]
    /\ x.ev \notin {"DeliverRsp", "Update"} => x.after = x.before
\* replication never destroys or regresses what a node holds
NoRegress(x) == \A m \in x.active, b \in Addr : Join(x.before[m][b], x.after[m][b]) = x.after[m][b]
\* a holder asked for a record answers with the record it holds
ServeHeld(x) == x.ev = "DeliverQry" =>
    \E m \in x.sent : m.k = "rsp" /\ m.from = x.n /\ m.a = x.a /\ m.c = x.before[x.n][x.a]
\* "A node advertises every record it holds to its replication targets"
AdvertiseAll(x) == x.ev = "Interval" =>
    \A j \in x.active \ {x.n} : AdvKeys(x.before[x.n]) # {} =>
        \E m \in x.sent : m.k = "adv" /\ m.from = x.n /\ m.to = j /\ m.keys = AdvKeys(x.before[x.n])

StepClauses == {"C09_AcceptHeld", "C09_NoRegress", "C09_ServeHeld", "C09_AdvertiseAll"}
StepHolds(c, x) == CASE c = "C09_AcceptHeld" -> AcceptHeld(x)
                     [] c = "C09_NoRegress" -> NoRegress(x)
                     [] c = "C09_ServeHeld" -> ServeHeld(x)
                     [] c = "C09_AdvertiseAll" -> AdvertiseAll(x)
StepFalsified(x) == {c \in StepClauses : ~StepHolds(c, x)}
=============================================================================
