SPECIFICATION Spec
CONSTANTS
  G = 5
  MinC = 6
  Small = TRUE
  Bands = {0, 339, 340, 759, 760, 1019, 1020}
  WithDup = TRUE
INVARIANTS ModelKeepsClauses
CHECK_DEADLOCK FALSE
