------------------------------ MODULE Challenge ------------------------------
(***************************************************************************)
(* Storage challenge and chunk-existence proofs (growth of the             *)
(* specification beyond the listed properties; the closeness decisions     *)
(* belong to C11: clause C11_ChallengeClosest).                            *)
(*                                                                         *)
(* Implementation-shaped operators for ant-node/src/node.rs                *)
(*   respond_x_closest_record_proof   Answer                               *)
(*   storage_challenge                Expected, Asked, CanChallenge        *)
(*   mark_peer / *_score_scheme       DurationScore, ChallengeScore, Score *)
(*   the threshold                    Verdict                              *)
(* and ant-networking/src/lib.rs verify_chunk_existence (ClientResult),    *)
(* followed by the clauses, written from the description of the mechanism: *)
(*   - a node asked for a proof of existence answers with the              *)
(*     min(difficulty, G) chunk-type records it holds that are closest to  *)
(*     the key (XOR metric over SHA-256 digests), closest first, each with *)
(*     the proof of ITS bytes under the nonce of the request; difficulty 1 *)
(*     = exactly the key, or "chunk does not exist";                       *)
(*   - a proof verifies iff it was made of the same bytes with the same    *)
(*     nonce;                                                              *)
(*   - a node with a full close group (itself and G-1 peers) and at least  *)
(*     MinC chunk records picks a target among the closer half of its own  *)
(*     chunks, expects the G own chunks closest to the target, and asks    *)
(*     every peer of its close group (not itself, nobody else) once;       *)
(*   - the score of a peer = duration score (100 minus one per 20 ms,      *)
(*     floor 0) times the percentage of the expected records it proved     *)
(*     (0 when any proof of an expected record is false); no / empty /     *)
(*     error answer = 0; a score below 5000 is one report of kind          *)
(*     FailedChunkProofCheck to the bad-node accounting (specs/peers);     *)
(*   - the client's verify_chunk_existence succeeds iff in some attempt at *)
(*     least `quorum` of the asked close nodes returned a verifying proof. *)
(*                                                                         *)
(* Ids are small positive integers; dig[id] is the digest of the address   *)
(* (a sequence of bytes: 32 in traces, 1 in the model).  The content of a  *)
(* record is identified with its key id.  A proof is [b, n]: made of the   *)
(* bytes of record b (0 = some other bytes) with nonce n.                  *)
(***************************************************************************)
EXTENDS Naturals, Sequences, FiniteSets, Bitwise, SequencesExt

CONSTANTS G,        \* CLOSE_GROUP_SIZE (5)
          MinC      \* chunk records needed for a challenge (50)

HighestScore == 100
TimeStep == 20
MinHealthy == 5000
IssueKind == "FailedChunkProofCheck"

Min2(a, b) == IF a < b THEN a ELSE b

(***************************************************************************)
(* The metric (as specs/distance/Distance.tla, any digest length)          *)
(***************************************************************************)
Dist(a, b) == [i \in 1..Len(a) |-> a[i] ^^ b[i]]
RECURSIVE CmpFrom(_, _, _)
CmpFrom(x, y, i) == IF i > Len(x) THEN 1
                    ELSE IF x[i] < y[i] THEN 0
                    ELSE IF x[i] > y[i] THEN 2
                    ELSE CmpFrom(x, y, i + 1)
Lt(x, y) == CmpFrom(x, y, 1) = 0
Le(x, y) == CmpFrom(x, y, 1) # 2
\* Lt(Dist(t, a), Dist(t, b)) without building the two distances: equal bytes give equal XOR bytes, so the first byte
\* in which a and b differ decides (the order of big-endian integers is lexicographic)
RECURSIVE CloserFrom(_, _, _, _)
CloserFrom(t, a, b, i) == IF i > Len(a) THEN FALSE
                          ELSE IF a[i] = b[i] THEN CloserFrom(t, a, b, i + 1)
                          ELSE (a[i] ^^ t[i]) < (b[i] ^^ t[i])
Closer(t, a, b) == CloserFrom(t, a, b, 1)           \* a is strictly closer to t than b
\* ids of S by ascending distance to the point t; ties (equal digests) by id
Sorted(dig, t, S) ==
    SortSeq(SetToSeq(S), LAMBDA p, q : Closer(t, dig[p], dig[q]) \/ (dig[p] = dig[q] /\ p < q))
Take(s, n) == SubSeq(s, 1, Min2(n, Len(s)))
Closest(dig, t, S, n) == Take(Sorted(dig, t, S), n)

(***************************************************************************)
(* Implementation-shaped operators                                         *)
(***************************************************************************)
ProofOf(k, nonce) == [b |-> k, n |-> nonce]
NoProof == [b |-> 0, n |-> 0]
\* held = [chunks |-> set of ids, others |-> set of ids (records of other types)]
Answer(dig, held, key, nonce, difficulty) ==
    IF difficulty = 1
    THEN << IF key \in held.chunks \cup held.others
            THEN [k |-> key, ok |-> TRUE, p |-> ProofOf(key, nonce)]
            ELSE [k |-> key, ok |-> FALSE, p |-> NoProof] >>
    ELSE LET ks == Closest(dig, dig[key], held.chunks, Min2(difficulty, G)) IN
         [i \in 1..Len(ks) |-> [k |-> ks[i], ok |-> TRUE, p |-> ProofOf(ks[i], nonce)]]

CanChallenge(peers, own) == Cardinality(peers) + 1 >= G /\ Cardinality(own) >= MinC
\* the closer half of the own chunks (by distance to the node itself): the possible targets
Targets(dig, self, own) == ToSet(Take(Sorted(dig, dig[self], own), Cardinality(own) \div 2))
Expected(dig, own, target) == Closest(dig, dig[target], own, G)
Asked(dig, self, peers) == Closest(dig, dig[self], peers, G - 1)

DurationScore(ms) == HighestScore - Min2(HighestScore, ms \div TimeStep)
\* answers: the Ok entries of a reply, [k, good]: good = the proof is the expected one
ChallengeScore(answers, expected) ==
    LET rel == SelectSeq(answers, LAMBDA a : a.k \in expected) IN
    IF \E i \in 1..Len(rel) : ~rel[i].good THEN 0
    ELSE Min2(HighestScore, (HighestScore * Len(rel)) \div Cardinality(expected))
Score(ms, answers, expected) == DurationScore(ms) * ChallengeScore(answers, expected)
Verdict(score) == IF score < MinHealthy THEN "report" ELSE "ok"

\* a reply r = [kind ("proofs" | "silent" | "error" | "other"), ans : Seq([k, ok, p])], request nonce nn
Marked(r, nn) == LET oks == SelectSeq(r.ans, LAMBDA a : a.ok) IN
                 [i \in 1..Len(oks) |-> [k |-> oks[i].k, good |-> oks[i].p = ProofOf(oks[i].k, nn)]]
ReplyScore(ms, r, nn, expected) ==
    IF r.kind # "proofs" \/ r.ans = <<>> THEN 0 ELSE Score(ms, Marked(r, nn), expected)

\* the client: rounds[i] = the replies of attempt i as [peer, kind, ans]; the first entry of a reply decides
Verified(rep, key, nn) == rep.kind = "proofs" /\ rep.ans # <<>> /\ rep.ans[1].ok /\ rep.ans[1].p = ProofOf(key, nn)
NVerified(round, key, nn) == Cardinality({rep.peer : rep \in {round[i] : i \in {j \in 1..Len(round) : Verified(round[j], key, nn)}}})
ClientResult(rounds, key, nn, quorum) ==
    IF \E i \in 1..Len(rounds) : NVerified(rounds[i], key, nn) >= quorum THEN "Ok" ELSE "Err"

(***************************************************************************)
(* Clauses, per kind of observed event x                                   *)
(***************************************************************************)
\* --- x.ev = "Proof": two proofs made by ChunkProof::new of (bytes b1, nonce n1) and (b2, n2); verifies = the
\*     result of ChunkProof::verify; agrees = the real proof equals SHA3-256(bytes ++ nonce) computed elsewhere
ProofBinds(x) == x.verifies = (x.b1 = x.b2 /\ x.n1 = x.n2) /\ x.agrees

\* --- x.ev = "Answer": [dig, held, key, nonce, difficulty, kind, ans]
AnsKeys(x) == [i \in 1..Len(x.ans) |-> x.ans[i].k]
\* closeness only: the answered records are in ascending distance to the key, and no chunk-type record held but
\* left out is closer to the key than an answered one
ClosestPrefix(dig, t, seq, S) ==
    /\ \A i, j \in 1..Len(seq) : i < j => ~Closer(t, dig[seq[j]], dig[seq[i]])
    /\ \A h \in S \ ToSet(seq) : \A i \in 1..Len(seq) : ~Closer(t, dig[h], dig[seq[i]])
AnswerClosestOnly(x) ==
    (x.kind = "proofs" /\ x.difficulty # 1) => ClosestPrefix(x.dig, x.dig[x.key], AnsKeys(x), x.held.chunks)
\* all of it: which records, how many, chunk type only, each with the proof of its own bytes under the request's nonce
AnswerExact(x) ==
    /\ x.kind = "proofs"
    /\ IF x.difficulty = 1
       THEN /\ Len(x.ans) = 1 /\ x.ans[1].k = x.key
            /\ IF x.key \in x.held.chunks \cup x.held.others
               THEN x.ans[1].ok /\ x.ans[1].p = ProofOf(x.key, x.nonce)
               ELSE ~x.ans[1].ok
       ELSE /\ Len(x.ans) = Min2(Min2(x.difficulty, G), Cardinality(x.held.chunks))
            /\ Cardinality(ToSet(AnsKeys(x))) = Len(x.ans)
            /\ ToSet(AnsKeys(x)) \subseteq x.held.chunks
            /\ ClosestPrefix(x.dig, x.dig[x.key], AnsKeys(x), x.held.chunks)
            /\ \A i \in 1..Len(x.ans) : x.ans[i].ok /\ x.ans[i].p = ProofOf(x.ans[i].k, x.nonce)

\* --- scoring, from the description: the percentage counts the expected RECORDS proved (not the entries of the reply)
Proved(answers, expected) == {k \in expected : \E i \in 1..Len(answers) : answers[i].k = k /\ answers[i].good}
HasFalse(answers, expected) == \E i \in 1..Len(answers) : answers[i].k \in expected /\ ~answers[i].good
DescScore(ms, answers, expected) ==
    IF HasFalse(answers, expected) THEN 0
    ELSE DurationScore(ms) * ((HighestScore * Cardinality(Proved(answers, expected))) \div Cardinality(expected))
Category(answers, expected) ==
    IF answers = <<>> THEN "silent"
    ELSE IF HasFalse(answers, expected) THEN "false"
    ELSE IF Proved(answers, expected) = expected THEN "full" ELSE "missing"
ClauseOfCategory(c) == CASE c = "silent" -> "Chal_SilentReported" [] c = "false" -> "Chal_FalseProofZero"
                         [] c = "full" -> "Chal_HonestPasses" [] OTHER -> "Chal_MissingLowersScore"

\* --- x.ev = "Mark": one call of mark_peer [ms, expected (set), answers : Seq([k, good]), score]
MarkFalsified(x) ==
    LET c == Category(x.answers, x.expected) IN
    IF x.score = DescScore(x.ms, x.answers, x.expected)
          /\ (c = "full" /\ x.ms < 1020 => x.score >= MinHealthy)
          /\ (c \in {"silent", "false"} => x.score = 0)
    THEN {} ELSE {ClauseOfCategory(c)}

\* --- x.ev = "Challenge": one round of storage_challenge
\*   [dig, self, peers (set), own (set), asked : Seq(peer), reqs : Seq([peer, key, nonce, difficulty]), target,
\*    expected : Seq(id), nonce, resp : Seq([peer, kind, ans, msLo, msHi]), reported : Seq([peer, kind])]
\* (the elapsed time the node measured for a peer lies in [msLo, msHi], both measured by the harness)
ReportedSet(x) == {x.reported[i].peer : i \in 1..Len(x.reported)}
NotEnough(x) == ~CanChallenge(x.peers, x.own) => (x.asked = <<>> /\ x.reported = <<>>)
OnlyCloseGroupAsked(x) ==
    CanChallenge(x.peers, x.own) =>
        /\ ToSet(x.asked) = ToSet(Asked(x.dig, x.self, x.peers))
        /\ Len(x.asked) = G - 1
        /\ x.self \notin ToSet(x.asked)
        /\ \A i \in 1..Len(x.reqs) : x.reqs[i].key = x.target /\ x.reqs[i].nonce = x.nonce /\ x.reqs[i].difficulty = G
ExpectedG(x) == CanChallenge(x.peers, x.own) => (Len(x.expected) = G /\ Cardinality(ToSet(x.expected)) = G /\ ToSet(x.expected) \subseteq x.own)
ChallengeClosestOnly(x) ==
    CanChallenge(x.peers, x.own) =>
        /\ x.target \in x.own
        /\ Cardinality({k \in x.own : Closer(x.dig[x.self], x.dig[k], x.dig[x.target])}) < Cardinality(x.own) \div 2
        /\ ClosestPrefix(x.dig, x.dig[x.target], x.expected, x.own)
ReportKind(x) == /\ ReportedSet(x) \subseteq ToSet(x.asked)
                 /\ Cardinality(ReportedSet(x)) = Len(x.reported)
                 /\ \A i \in 1..Len(x.reported) : x.reported[i].kind = IssueKind
\* per asked peer: the verdict is decided whenever both ends of the measured interval give the same one
RespFalsified(x, r) ==
    LET exp == ToSet(x.expected)
        answers == IF r.kind = "proofs" THEN Marked(r, x.nonce) ELSE <<>>
        lo == DescScore(r.msLo, answers, exp)      \* the highest score the peer can have got
        hi == DescScore(r.msHi, answers, exp)      \* the lowest
        rep == r.peer \in ReportedSet(x) IN
    IF (lo < MinHealthy => rep) /\ (hi >= MinHealthy => ~rep) THEN {} ELSE {ClauseOfCategory(Category(answers, exp))}
ChallengeFalsified(x) ==
    (IF NotEnough(x) THEN {} ELSE {"Chal_NotEnough"})
    \cup (IF OnlyCloseGroupAsked(x) THEN {} ELSE {"Chal_OnlyCloseGroupAsked"})
    \cup (IF ExpectedG(x) THEN {} ELSE {"Chal_ExpectedCount"})
    \cup (IF ChallengeClosestOnly(x) THEN {} ELSE {"C11_ChallengeClosest"})
    \cup (IF ReportKind(x) THEN {} ELSE {"Chal_ReportKind"})
    \cup (IF x.expected = <<>> THEN {} ELSE UNION {RespFalsified(x, x.resp[i]) : i \in 1..Len(x.resp)})

\* --- x.ev = "Client": one call of verify_chunk_existence
\*   [key, nonce, quorum, attempts, rounds : Seq(Seq([peer, kind, ans])), closeQueries, res ("Ok" | "Err")]
ClientQuorum(x) ==
    /\ x.res = ClientResult(x.rounds, x.key, x.nonce, x.quorum)
    \* it stops at the first attempt that reaches the quorum, and never makes more attempts than allowed
    /\ Len(x.rounds) <= x.attempts
    /\ \A i \in 1..(Len(x.rounds) - 1) : NVerified(x.rounds[i], x.key, x.nonce) < x.quorum
    /\ (x.res = "Err" => Len(x.rounds) = x.attempts)
\* the close nodes are looked up again at every second attempt (1st, 3rd, ...)
ClientRequery(x) == x.closeQueries = (Len(x.rounds) + 1) \div 2

FalsifiedBy(x) ==
    CASE x.ev = "Proof" -> IF ProofBinds(x) THEN {} ELSE {"Chal_ProofBindsNonceAndBytes"}
      [] x.ev = "Answer" -> (IF AnswerClosestOnly(x) THEN {} ELSE {"C11_ChallengeClosest"})
                            \cup (IF AnswerExact(x) THEN {} ELSE {"Chal_AnswerClosest"})
      [] x.ev = "Mark" -> MarkFalsified(x)
      [] x.ev = "Challenge" -> ChallengeFalsified(x)
      [] x.ev = "Client" -> (IF ClientQuorum(x) THEN {} ELSE {"Chal_ClientQuorum"})
                            \cup (IF ClientRequery(x) THEN {} ELSE {"Chal_ClientRequery"})
      [] OTHER -> {"Malformed"}

\* the implementation-shaped operators as drift predicate (model/implementation disagreement that keeps the clauses)
Drifts(x) ==
    CASE x.ev = "Answer" -> x.kind = "proofs" /\ x.ans # Answer(x.dig, x.held, x.key, x.nonce, x.difficulty)
      [] x.ev = "Mark" -> x.score # Score(x.ms, x.answers, x.expected)
      [] x.ev = "Challenge" -> CanChallenge(x.peers, x.own) /\ x.target \in x.own /\ x.expected # Expected(x.dig, x.own, x.target)
      [] OTHER -> FALSE
=============================================================================
