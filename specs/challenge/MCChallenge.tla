---------------------------- MODULE MCChallenge ----------------------------
(***************************************************************************)
(* The storage challenge on a small universe: 1-byte digests, a node       *)
(* (digest 0) with 8 / 6 / 5 chunk records and 6 / 4 / 3 known peers,      *)
(* G = 5 as in the code (the scoring thresholds depend on it), MinC = 6.   *)
(* Every case = one round of the challenge with one profile of responder   *)
(* behaviour at one (or every) position of the close group; its outcome is *)
(* computed with the implementation-shaped operators (Answer, Expected,    *)
(* Asked, Score, Verdict) and must satisfy the clauses written from the    *)
(* description.  Further cases: answers to a proof query over all subsets  *)
(* of held records, and the client's quorum loop.                          *)
(* The cases (without the time bands, which the harness cannot impose)     *)
(* are written out as scenarios for drv_challenge.                         *)
(***************************************************************************)
EXTENDS Challenge, TLC, Json, IOUtils

CONSTANT Small,      \* TRUE: the quick partition (fewer subsets of lacking / held records)
         Bands,      \* the elapsed times (ms) tried for a real-node responder
         WithDup     \* include the responder that repeats one proven record (a known hole of the scoring)

\* ids: 1 = the node itself; 2..9 its chunk records; 10, 11 chunks only responders hold; 12 a record of another type;
\*      13..18 peers
DV == <<0, 1, 2, 3, 5, 6, 9, 12, 14, 4, 7, 10, 1, 2, 4, 7, 8, 13>>
Dig == [i \in 1..Len(DV) |-> <<DV[i]>>]
Self == 1
KeysAll == 2..9
Extras == <<10, 11>>
Pad == 12
PeersAll == 13..18

OwnSets == {2..9, 2..7, 2..6}
PeerSets == {13..18, {13, 14, 15, 17}, {13, 15, 17}}
Lacks == IF Small THEN {{}, {5}, {2, 3}, {1, 2, 3}, {1, 2, 3, 4, 5}} ELSE {{}, {1}, {5}, {2, 3}, {1, 2, 3}, {1, 2, 3, 4}, {1, 2, 3, 4, 5}}
P(beh, lack, extra, at, how, ms) == [beh |-> beh, lack |-> lack, extra |-> extra, at |-> at, how |-> how, ms |-> ms]
Honest == P("node", {}, 0, 1, "nonce", 0)
Profiles ==
    {P("node", lk, x, 1, "nonce", ms) : lk \in Lacks, x \in 0..(IF Small THEN 1 ELSE 2), ms \in Bands}
    \cup {P("lie", lk, 0, at, how, 0) : lk \in {{}, {2}}, at \in {1, 3, 5}, how \in {"nonce", "bytes"}}
    \cup {P("errEntries", {}, 0, at, "nonce", 0) : at \in {1, 5}}
    \cup {P(b, {}, 0, 1, "nonce", 0) : b \in {"silent", "error", "empty", "other"}}
    \cup {P("slow", {}, 0, 1, "nonce", 1100), P("slow", {5}, 0, 1, "nonce", 1100)}
    \cup (IF WithDup THEN {P("dup", {2, 3, 4, 5}, 0, 1, "nonce", 0), P("dup", {}, 0, 1, "nonce", 0)} ELSE {})
\* a plan: the profile at one position of the close group (the others honest), or at every position (pos = 0)
PlanAt(p, pos) == [i \in 1..4 |-> IF pos = 0 \/ i = pos THEN p ELSE Honest]
Silent == P("silent", {}, 0, 1, "nonce", 0)
\* a target is one of the closer half; where no challenge happens the target plays no role
ValidCase(x) == IF CanChallenge(x.peers, x.own) THEN x.target \in Targets(Dig, Self, x.own) ELSE x.target = 2
ChalCase(o, ps, tg, pl) == [t |-> "chal", own |-> o, peers |-> ps, target |-> tg, plan |-> pl]
AnsCase(h, oth, k, d) == [t |-> "ans", chunks |-> h, others |-> oth, key |-> k, difficulty |-> d]
\* the client: quorum, attempts allowed, per attempt how many of the 5 close nodes prove the chunk; the others fail in
\* the ways of BadKinds
BadKinds == <<"wrongNonce", "wrongBytes", "missing", "goodSecond", "empty", "other", "error", "silent">>
CliCase(q, gs, r) == [t |-> "cli", quorum |-> q, attempts |-> Len(gs), goods |-> gs, rot |-> r]
GoodSeqs == UNION {[1..n -> {0, 2, 3, 5}] : n \in 1..3}

VARIABLE c
\* the full world with every plan; the smaller worlds (exactly enough / one too few records or peers) with two plans
Init == \/ \E tg \in KeysAll, p \in Profiles, pos \in 0..4 : c = ChalCase(2..9, 13..18, tg, PlanAt(p, pos)) /\ ValidCase(c)
        \/ \E o \in OwnSets, ps \in PeerSets, tg \in KeysAll, p \in {Honest, Silent} :
               c = ChalCase(o, ps, tg, PlanAt(p, 1)) /\ ValidCase(c)
        \/ \E h \in SUBSET (IF Small THEN 2..6 ELSE 2..8), oth \in {{}, {Pad}}, k \in {2, 5, 9, Pad}, d \in (IF Small THEN {0, 1, 2, 5, 6} ELSE {0, 1, 2, 3, 4, 5, 6, 9}) :
               c = AnsCase(h, oth, k, d)
        \/ \E q \in {1, 3, 5}, gs \in GoodSeqs, r \in {0, 3} : c = CliCase(q, gs, r)
Next == UNCHANGED c
Spec == Init /\ [][Next]_c

(***************************************************************************)
(* Outcomes, computed with the implementation-shaped operators             *)
(***************************************************************************)
Corrupt(a, at, how, nn) ==
    IF a = <<>> THEN a
    ELSE LET j == Min2(at, Len(a)) IN
         [a EXCEPT ![j].p = IF how = "bytes" THEN [b |-> 0, n |-> 0] ELSE [b |-> a[j].k, n |-> nn + 1]]
ReplyOf(p, exp, own, target) ==
    LET lacked == {exp[r] : r \in {q \in p.lack : q <= Len(exp)}}
        held == [chunks |-> (own \ lacked) \cup {Extras[i] : i \in 1..p.extra}, others |-> {Pad}]
        a == Answer(Dig, held, target, 1, G) IN
    CASE p.beh \in {"node", "slow"} -> [kind |-> "proofs", ans |-> a]
      [] p.beh = "lie" -> [kind |-> "proofs", ans |-> Corrupt(a, p.at, p.how, 1)]
      [] p.beh = "errEntries" -> [kind |-> "proofs", ans |-> IF a = <<>> THEN a ELSE [a EXCEPT ![Min2(p.at, Len(a))].ok = FALSE]]
      [] p.beh = "dup" -> [kind |-> "proofs", ans |-> IF a = <<>> THEN a ELSE [i \in 1..G |-> a[1]]]
      [] p.beh = "empty" -> [kind |-> "proofs", ans |-> <<>>]
      [] OTHER -> [kind |-> p.beh, ans |-> <<>>]
ChalOutcome(x) ==
    IF ~CanChallenge(x.peers, x.own)
    THEN [ev |-> "Challenge", dig |-> Dig, self |-> Self, peers |-> x.peers, own |-> x.own, asked |-> <<>>, reqs |-> <<>>,
          target |-> 0, expected |-> <<>>, nonce |-> 1, resp |-> <<>>, reported |-> <<>>]
    ELSE LET exp == Expected(Dig, x.own, x.target)
             asked == Asked(Dig, Self, x.peers)
             resp == [i \in 1..Len(asked) |->
                        LET r == ReplyOf(x.plan[i], exp, x.own, x.target) IN
                        [peer |-> asked[i], kind |-> r.kind, ans |-> r.ans, msLo |-> x.plan[i].ms, msHi |-> x.plan[i].ms]]
             rep == SelectSeq(resp, LAMBDA r : Verdict(ReplyScore(r.msLo, r, 1, ToSet(exp))) = "report") IN
         [ev |-> "Challenge", dig |-> Dig, self |-> Self, peers |-> x.peers, own |-> x.own, asked |-> asked,
          reqs |-> [i \in 1..Len(asked) |-> [peer |-> asked[i], key |-> x.target, nonce |-> 1, difficulty |-> G]],
          target |-> x.target, expected |-> exp, nonce |-> 1, resp |-> resp,
          reported |-> [i \in 1..Len(rep) |-> [peer |-> rep[i].peer, kind |-> IssueKind]]]
AnsOutcome(x) ==
    LET held == [chunks |-> x.chunks, others |-> x.others] IN
    [ev |-> "Answer", dig |-> Dig, held |-> held, key |-> x.key, nonce |-> 1, difficulty |-> x.difficulty, kind |-> "proofs",
     ans |-> Answer(Dig, held, x.key, 1, x.difficulty)]
\* the plan of one attempt: which of the 5 close nodes prove the chunk (rot shifts the positions)
PlanOf(good, rot) == [i \in 1..5 |-> IF ((i + rot) % 5) < good THEN "good" ELSE BadKinds[((i + rot) % 8) + 1]]
CliReply(peer, kind, key) ==
    LET good == [k |-> key, ok |-> TRUE, p |-> ProofOf(key, 1)]
        miss == [k |-> key, ok |-> FALSE, p |-> NoProof] IN
    CASE kind = "good" -> [peer |-> peer, kind |-> "proofs", ans |-> <<good>>]
      [] kind = "wrongNonce" -> [peer |-> peer, kind |-> "proofs", ans |-> <<[good EXCEPT !.p = [b |-> key, n |-> 2]]>>]
      [] kind = "wrongBytes" -> [peer |-> peer, kind |-> "proofs", ans |-> <<[good EXCEPT !.p = NoProof]>>]
      [] kind = "missing" -> [peer |-> peer, kind |-> "proofs", ans |-> <<miss>>]
      [] kind = "goodSecond" -> [peer |-> peer, kind |-> "proofs", ans |-> <<miss, good>>]
      [] kind = "empty" -> [peer |-> peer, kind |-> "proofs", ans |-> <<>>]
      [] OTHER -> [peer |-> peer, kind |-> kind, ans |-> <<>>]
CliOutcome(x) ==
    LET all == [i \in 1..x.attempts |-> [j \in 1..5 |-> CliReply(12 + j, PlanOf(x.goods[i], x.rot)[j], 2)]]
        ok == {i \in 1..x.attempts : NVerified(all[i], 2, 1) >= x.quorum}
        made == IF ok = {} THEN x.attempts ELSE CHOOSE i \in ok : \A j \in ok : i <= j IN
    [ev |-> "Client", key |-> 2, nonce |-> 1, quorum |-> x.quorum, attempts |-> x.attempts, rounds |-> SubSeq(all, 1, made),
     closeQueries |-> (made + 1) \div 2, res |-> IF ok = {} THEN "Err" ELSE "Ok"]
Outcome == CASE c.t = "chal" -> ChalOutcome(c) [] c.t = "ans" -> AnsOutcome(c) [] OTHER -> CliOutcome(c)

ModelKeepsClauses == FalsifiedBy(Outcome) = {}
ModelNoDrift == ~Drifts(Outcome)
\* non-vacuity (negative configurations: each of these must be violated)
NeverReported == c.t = "chal" => Outcome.reported = <<>>
NeverPasses == c.t = "chal" => Len(Outcome.reported) = Len(Outcome.asked)
ClientNeverOk == c.t = "cli" => Outcome.res = "Err"

(***************************************************************************)
(* Scenarios for the driver (the time band of a profile cannot be imposed) *)
(***************************************************************************)
Strip(p) == [beh |-> p.beh, lack |-> p.lack, extra |-> p.extra, at |-> p.at, how |-> p.how]
ChalScenarios == {[kind |-> "challenge", resp |-> [i \in 1..4 |-> Strip(PlanAt(p, pos)[i])]] : p \in Profiles, pos \in 0..4}
\* every failed attempt costs the client's real waiting time (300 ms, then 600 ms)
SleepMs(x) == LET o == CliOutcome(x)  failed == IF o.res = "Ok" THEN Len(o.rounds) - 1 ELSE Len(o.rounds) IN
              IF failed = 0 THEN 0 ELSE 300 + 600 * (failed - 1)
CliScenarios == {[kind |-> "client", quorum |-> x.quorum, attempts |-> x.attempts, npeers |-> 5,
                  rounds |-> [i \in 1..x.attempts |-> PlanOf(x.goods[i], x.rot)], sleepMs |-> SleepMs(x),
                  want |-> CliOutcome(x).res] : x \in {CliCase(q, gs, r) : q \in {1, 3, 5}, gs \in GoodSeqs, r \in {0, 3}}}
\* the short-cut comparison used for ranking is the order of the XOR distances (2-byte digests, every pair of bytes from a set
\* that has equal, adjacent and far values)
SmallDigs == {<<a, b>> : a \in {0, 1, 128, 255}, b \in {0, 7, 255}}
ASSUME \A t \in SmallDigs, a \in SmallDigs, b \in SmallDigs : Closer(t, a, b) = Lt(Dist(t, a), Dist(t, b))

ASSUME IF "CASES" \in DOMAIN IOEnv
       THEN ndJsonSerialize(IOEnv.CASES, SetToSeq(ChalScenarios) \o SetToSeq(CliScenarios)) ELSE TRUE
=============================================================================
