SPECIFICATION Spec
CONSTANTS
  G = 5
  MinC = 6
  Small = FALSE
  Bands = {0, 19, 20, 339, 340, 759, 760, 1019, 1020, 2000}
  WithDup = FALSE
INVARIANTS ModelKeepsClauses ModelNoDrift
CHECK_DEADLOCK FALSE
