SPECIFICATION Spec
CONSTANTS
  G = 5
  MinC = 50
INVARIANT Report
CHECK_DEADLOCK FALSE
