--------------------------- MODULE ChallengeTrace ---------------------------
(***************************************************************************)
(* Trace specification of the storage challenge: one line per step of      *)
(* drv_challenge on REAL code.                                             *)
(*   Reset      start of a run (forgets the digest table)                  *)
(*   Keys       the SHA-256 digests (computed by the driver) of the        *)
(*              addresses that got the ids from, from+1, ...               *)
(*   Proof      ChunkProof::new / verify                                   *)
(*   Answer     a real node's answer to GetChunkExistenceProof             *)
(*   Mark       one call of mark_peer                                      *)
(*   Challenge  one round of storage_challenge on a real node, the harness *)
(*              being the transport                                        *)
(*   Client     one call of Network::verify_chunk_existence                *)
(* Every line is judged by the clauses of Challenge.tla (FalsifiedBy) with *)
(* the metric evaluated here on the logged digests; the implementation-    *)
(* shaped operators run alongside as the drift predicate.  No padding rule *)
(* is needed: the filler chunks that bring a node to MinC = 50 records are *)
(* ordinary members of `own` / `held` with their digests.                  *)
(***************************************************************************)
EXTENDS Challenge, TLC, Json, IOUtils

Rec == ndJsonDeserialize(IOEnv.TRACE)
N == Len(Rec)

VARIABLES l, dig, viol, drift, stats
vars == <<l, dig, viol, drift, stats>>

Held(h) == [chunks |-> ToSet(h.chunks), others |-> ToSet(h.others)]
\* the event in the shape the clauses talk about
Shape(e) ==
    CASE e.ev = "Answer" -> [ev |-> "Answer", dig |-> dig, held |-> Held(e.held), key |-> e.key, nonce |-> e.nonce,
                             difficulty |-> e.difficulty, kind |-> e.kind, ans |-> e.ans]
      [] e.ev = "Mark" -> [ev |-> "Mark", ms |-> e.ms, expected |-> ToSet(e.expected), answers |-> e.answers, score |-> e.score]
      [] e.ev = "Challenge" -> [ev |-> "Challenge", dig |-> dig, self |-> e.self, peers |-> ToSet(e.peers), own |-> ToSet(e.own),
                                asked |-> e.asked, reqs |-> e.reqs, target |-> e.target, expected |-> e.expected, nonce |-> e.nonce,
                                resp |-> e.resp, reported |-> e.reported]
      [] OTHER -> e
WellFormed(e) ==
    CASE e.ev = "Answer" -> e.key \in 1..Len(dig) /\ \A k \in ToSet(e.held.chunks) \cup ToSet(e.held.others) : k \in 1..Len(dig)
      [] e.ev = "Challenge" -> /\ e.self \in 1..Len(dig)
                               /\ \A k \in ToSet(e.own) \cup ToSet(e.peers) \cup ToSet(e.expected) : k \in 1..Len(dig)
                               /\ (e.expected # <<>> => e.target \in 1..Len(dig))
      [] e.ev = "Mark" -> e.expected # <<>>
      [] OTHER -> TRUE
Undecided(x) == Cardinality({i \in 1..Len(x.resp) :
                    LET r == x.resp[i]
                        answers == IF r.kind = "proofs" THEN Marked(r, x.nonce) ELSE <<>>
                        exp == ToSet(x.expected) IN
                    x.expected # <<>> /\ DescScore(r.msLo, answers, exp) >= MinHealthy /\ DescScore(r.msHi, answers, exp) < MinHealthy})

Init == l = 1 /\ dig = <<>> /\ viol = {} /\ drift = {} /\
        stats = [proofs |-> 0, answers |-> 0, marks |-> 0, challenges |-> 0, refused |-> 0, verdicts |-> 0, undecided |-> 0, reports |-> 0, clients |-> 0, clientOk |-> 0]
Next ==
    /\ l <= N /\ l' = l + 1
    /\ LET e == Rec[l] IN
       IF e.ev = "Reset" THEN dig' = <<>> /\ UNCHANGED <<viol, drift, stats>>
       ELSE IF e.ev = "Keys" THEN
            IF e.from = Len(dig) + 1 THEN dig' = dig \o e.dig /\ UNCHANGED <<viol, drift, stats>>
            ELSE viol' = viol \cup {[clause |-> "Malformed", line |-> l]} /\ UNCHANGED <<dig, drift, stats>>
       ELSE IF e.ev \in {"Proof", "Answer", "Mark", "Challenge", "Client"} /\ WellFormed(e) THEN
            LET x == Shape(e) IN
            /\ viol' = viol \cup {[clause |-> c, line |-> l] : c \in FalsifiedBy(x)}
            /\ drift' = IF Drifts(x) THEN drift \cup {l} ELSE drift
            /\ stats' = CASE e.ev = "Proof" -> [stats EXCEPT !.proofs = @ + 1]
                          [] e.ev = "Answer" -> [stats EXCEPT !.answers = @ + 1]
                          [] e.ev = "Mark" -> [stats EXCEPT !.marks = @ + 1]
                          [] e.ev = "Challenge" -> [stats EXCEPT !.challenges = @ + 1,
                                                                 !.refused = @ + (IF x.asked = <<>> THEN 1 ELSE 0),
                                                                 !.verdicts = @ + Len(x.resp),
                                                                 !.undecided = @ + Undecided(x),
                                                                 !.reports = @ + Len(x.reported)]
                          [] OTHER -> [stats EXCEPT !.clients = @ + 1, !.clientOk = @ + (IF x.res = "Ok" THEN 1 ELSE 0)]
            /\ UNCHANGED dig
       ELSE /\ viol' = viol \cup {[clause |-> "Malformed", line |-> l]} /\ UNCHANGED <<dig, drift, stats>>
Spec == Init /\ [][Next]_vars
Report == l = N + 1 => ndJsonSerialize(IOEnv.OUT, << [lines |-> N, violations |-> SetToSeq(viol), drift |-> SetToSeq(drift), stats |-> stats] >>)
=============================================================================
