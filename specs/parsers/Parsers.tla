------------------------------- MODULE Parsers -------------------------------
(***************************************************************************)
(* Parsers of untrusted text and bytes (property C17).                     *)
(*                                                                         *)
(* Mode F: per parser an acceptance automaton over the concrete input      *)
(* (character codes, or -- for long inputs -- length and character-class   *)
(* flags computed by the driver) where the documentation gives a language, *)
(* and three generic clauses:                                              *)
(*   C17_Total          the outcome is Ok or Err, never a panic/overflow,  *)
(*   C17_RoundTrip      parsing a formatter's output returns the value,    *)
(*   C17_AcceptsExactly where the language is explicit: members are        *)
(*                      accepted (with the right value), non-members are   *)
(*                      rejected.                                          *)
(* Written from the statement of C17 and the documented formats (hex       *)
(* address lengths, port grammar), not from the parsers' code.             *)
(*                                                                         *)
(* Strings are sequences of character codes.                               *)
(***************************************************************************)
EXTENDS Naturals, Sequences, FiniteSets

\* ---------------------------------------------------------------- characters
IsDigitC(c) == c \in 48..57
IsHexC(c)   == c \in 48..57 \/ c \in 65..70 \/ c \in 97..102
AllHex(s)    == \A i \in 1..Len(s) : IsHexC(s[i])
AllDigits(s) == \A i \in 1..Len(s) : IsDigitC(s[i])
DASH == 45
PLUS == 43

\* ---------------------------------------------------------------- inputs
\* An input is described by  len (characters), hex (all characters are hex digits), and -- when it
\* is short enough to be logged -- codes.  fmt: the input is the unmodified output of the formatter
\* for a value the driver holds (then it must be accepted and give that value back).
InLen(x) == x.len
InHex(x) == x.hex
Even(n) == n % 2 = 0

\* ---------------------------------------------------------------- hex languages
\* lengths in characters: RegisterAddress = 32-byte meta + 48-byte owner key, ScratchpadAddress =
\* 48-byte owner key, data addresses = 32-byte XorName; an encrypted wallet key is
\* salt(8) + nonce(12) + ciphertext + tag(16) bytes.
REG_LEN == 160
PAD_LEN == 96
XOR_LEN == 64
ENC_MIN == 72

\* "accept": must be Ok;  "reject": must be Err;  "either": the documented format does not decide
\* (e.g. the 48 bytes have the right length but need not be a point of the curve; the tag of an
\* encrypted key need not verify)
HexFixed(x, n) == IF ~(InHex(x) /\ InLen(x) = n) THEN "reject"
                  ELSE IF x.fmt THEN "accept" ELSE "either"
ExpReg(x)  == HexFixed(x, REG_LEN)
ExpPad(x)  == HexFixed(x, PAD_LEN)
ExpAddr(x) == IF InHex(x) /\ InLen(x) = XOR_LEN THEN "accept" ELSE "reject"
ExpDmc(x)  == IF InHex(x) /\ Even(InLen(x)) THEN "accept" ELSE "reject"
ExpDecrypt(x) == IF ~(InHex(x) /\ Even(InLen(x)) /\ InLen(x) >= ENC_MIN) THEN "reject"
                 ELSE IF x.fmt /\ x.pw = "right" THEN "accept"
                 ELSE IF x.fmt /\ x.pw = "wrong" THEN "reject"
                 ELSE "either"

\* ---------------------------------------------------------------- port ranges
\* grammar:  N  |  N-M   with N, M decimal numbers in 0..65535 and N < M.
\* "N-N" and an explicit plus sign are left open (either).
RECURSIVE StripZ(_)
StripZ(d) == IF Len(d) > 1 /\ d[1] = 48 THEN StripZ(Tail(d)) ELSE d
\* value of a non-empty digit string, 100000 standing for "more than 99999"
RECURSIVE ValD(_, _)
ValD(d, acc) == IF d = <<>> THEN acc ELSE ValD(Tail(d), acc * 10 + (d[1] - 48))
NumVal(t) == LET z == StripZ(t) IN IF Len(z) > 5 THEN 100000 ELSE ValD(z, 0)
\* [k |-> "num", v] | [k |-> "plus", v] | [k |-> "bad"]
NumSpec(t) == IF t # <<>> /\ AllDigits(t) THEN
                   IF NumVal(t) <= 65535 THEN [k |-> "num", v |-> NumVal(t)] ELSE [k |-> "bad"]
              ELSE IF Len(t) >= 2 /\ t[1] = PLUS /\ AllDigits(Tail(t)) /\ NumVal(Tail(t)) <= 65535
                   THEN [k |-> "plus", v |-> NumVal(Tail(t))]
              ELSE [k |-> "bad"]
Dashes(s) == {i \in 1..Len(s) : s[i] = DASH}
\* result: [k |-> "accept", single, lo, hi] | [k |-> "reject"] | [k |-> "either", ...]
PortSpec(s) ==
    IF Cardinality(Dashes(s)) = 0 THEN
        LET n == NumSpec(s) IN
        IF n.k = "bad" THEN [k |-> "reject"]
        ELSE [k |-> IF n.k = "num" THEN "accept" ELSE "either", single |-> TRUE, lo |-> n.v, hi |-> n.v]
    ELSE IF Cardinality(Dashes(s)) = 1 THEN
        LET i == CHOOSE j \in Dashes(s) : TRUE
            a == NumSpec(SubSeq(s, 1, i - 1))
            b == NumSpec(SubSeq(s, i + 1, Len(s))) IN
        IF a.k = "bad" \/ b.k = "bad" THEN [k |-> "reject"]
        ELSE IF a.v > b.v THEN [k |-> "reject"]
        ELSE [k |-> IF a.v < b.v /\ a.k = "num" /\ b.k = "num" THEN "accept" ELSE "either",
              single |-> FALSE, lo |-> a.v, hi |-> b.v]
    ELSE [k |-> "reject"]

\* what the real parser returned: [k |-> "ok", single, lo, hi] | [k |-> "err"] | [k |-> "panic"]
PortOK(s, out) == LET sp == PortSpec(s) IN
    CASE sp.k = "accept" -> out.k = "ok" /\ out.single = sp.single /\ out.lo = sp.lo /\ out.hi = sp.hi
      [] sp.k = "reject" -> out.k = "err"
      [] OTHER -> out.k = "err" \/ (out.k = "ok" /\ out.lo = sp.lo /\ out.hi = sp.hi)

\* validate(count): the range holds exactly count ports
ValidateOK(single, lo, hi, count, out) ==
    IF (single /\ count = 1) \/ (~single /\ hi - lo + 1 = count) THEN out = "ok" ELSE out = "err"

\* increment_port_option: the next port; there is none after 65535 (any non-panicking answer)
IncOK(has, p, outHas, outP) ==
    IF ~has THEN ~outHas
    ELSE IF p < 65535 THEN outHas /\ outP = p + 1
    ELSE TRUE

\* record header: a record shorter than header + 1 byte has no header
HEADER_SIZE == 2
ExpHeader(x) == IF InLen(x) < HEADER_SIZE + 1 THEN "reject" ELSE IF x.fmt THEN "accept" ELSE "either"
ExpRecord(x) == IF InLen(x) <= HEADER_SIZE THEN "reject" ELSE IF x.fmt THEN "accept" ELSE "either"

\* ---------------------------------------------------------------- multiaddresses
\* The driver parses the input with libp2p (trusted) and logs: inp = the peer ids of the input's /p2p components
\* in order (small integers), relay = the input is  <transport>/p2p/R/p2p-circuit/p2p/T,  canon = the input already
\* is a dialable address  /ip4/A/(udp/P[/quic-v1] | tcp/P[/ws])[/p2p/X]  (the peer id may be absent only when the
\* caller asked to ignore it), outp = the peer ids of the crafted address (0 = an id that is not in the input),
\* ident = the crafted address printed equals the input.
\* Canonical addresses are what the formatter prints: they are accepted and returned unchanged.
C17_CraftCanonical(canon, out, ident) == canon => out = "ok" /\ ident
\* The crafted address carries at most one peer id, one that the input carries; the only peer id of the input is
\* kept; of a relayed address the transport part belongs to the relay R, so only R makes it dialable; without
\* the ignore flag an address without peer id is not returned.
C17_CraftKeepsPeer(inp, relay, ignore, out, outp) == out = "ok" =>
    /\ Len(outp) <= 1
    /\ \A i \in 1..Len(outp) : \E j \in 1..Len(inp) : inp[j] = outp[i]
    /\ (~ignore => Len(outp) = 1)
    /\ (Len(inp) = 1 => outp = inp)
    /\ (relay => outp = <<inp[1]>>)

\* ---------------------------------------------------------------- lists, ports against a registry, numbering
\* ANT_PEERS: a comma separated list; the result holds exactly the items that are addresses on their own
\* (same: the returned addresses are those of the items, in order -- compared by the driver)
EnvPeersOK(nItemsOk, nOut, same) == nOut = nItemsOk /\ same
\* check_port_availability: Ok iff no port of the range is recorded in the registry (used: computed by the driver)
AvailOK(used, out) == (out = "ok") = ~used

\* ---------------------------------------------------------------- all parsers
\* a register signing key is the hex form of a 32-byte BLS secret key
KEY_LEN == 64
ExpKey(x) == HexFixed(x, KEY_LEN)
ExtraParsers == {"signing_key", "wallet_file"}
HexParsers == {"reg_from_hex", "pad_from_hex", "str_to_addr", "dmc_from_hex", "decrypt"}
OpenParsers == {"atto_from_str", "craft_multiaddr", "cache_load", "registry_load", "registry_from_json"}
RecordParsers == {"header_from_record", "record_chunk", "record_scratchpad", "record_register", "record_transaction"}
ParserNames == HexParsers \cup OpenParsers \cup RecordParsers \cup ExtraParsers \cup {"port_parse"}

\* expectation for an input x of parser p (x.codes is used by the port grammar only)
Expected(p, x) ==
    CASE p = "reg_from_hex" -> ExpReg(x)
      [] p = "pad_from_hex" -> ExpPad(x)
      [] p = "str_to_addr"  -> ExpAddr(x)
      [] p = "dmc_from_hex" -> ExpDmc(x)
      [] p = "decrypt"      -> ExpDecrypt(x)
      [] p = "signing_key"  -> ExpKey(x)
      [] p = "port_parse"   -> PortSpec(x.codes).k
      [] p = "header_from_record" -> ExpHeader(x)
      [] p \in RecordParsers -> ExpRecord(x)
      [] OTHER -> IF x.fmt THEN "accept" ELSE "either"

\* ================================================================== clauses of C17
\* out: "ok" | "err" | "panic";  rt (round trip through the formatter): "same" | "diff" | "err" | "panic" | "na"
C17_Total(out, rt) == out \in {"ok", "err"} /\ rt # "panic"
C17_RoundTrip(rt) == rt \in {"same", "na"}
C17_AcceptsExactly(exp, out) == /\ exp = "accept" => out # "err"
                                /\ exp = "reject" => out # "ok"
=============================================================================
