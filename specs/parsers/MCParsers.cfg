SPECIFICATION Spec
CONSTANTS
  MaxWordHex = 3
  MaxWordDecrypt = 2
  MaxWordPort = 4
  MaxWordOpen = 3
  MaxWordField = 2
  MaxWordRec = 3
INVARIANTS LawTotal LawHex LawPort LawFamilies
CHECK_DEADLOCK FALSE
