---------------------------- MODULE ParsersTrace ----------------------------
(***************************************************************************)
(* Trace specification for C17: every line is one call of a real parser    *)
(* (or of PortRange::validate / increment_port_option) with its concrete   *)
(* input -- character codes, or length and character-class flags for long  *)
(* inputs -- its outcome (ok / err / panic) and the result of the round    *)
(* trip through the formatter.  The operators of Parsers.tla decide.       *)
(***************************************************************************)
EXTENDS Parsers, TLC, Json, IOUtils, SequencesExt

Rec == ndJsonDeserialize(IOEnv.TRACE)
N == Len(Rec)

VARIABLES l, viol
vars == <<l, viol>>

MaxReported == 300
When(cond, name) == IF cond THEN {name} ELSE {}
X(e) == [len |-> e.len, hex |-> e.hex, fmt |-> e.fmt, pw |-> e.pw, codes |-> e.codes]

Falsified(e) ==
    IF e.ev = "Parse" /\ e.parser \in ParserNames THEN
             When(~C17_Total(e.out, e.rt), "C17_Total")
        \cup When(e.out # "panic" /\ e.rt # "panic" /\ ~C17_RoundTrip(e.rt), "C17_RoundTrip")
        \cup When(e.out # "panic" /\
                  (IF e.parser = "port_parse" THEN ~PortOK(e.codes, e.res)
                   ELSE ~C17_AcceptsExactly(Expected(e.parser, X(e)), e.out)), "C17_AcceptsExactly")
        \cup When(e.parser = "craft_multiaddr" /\ e.out # "panic" /\ ~C17_CraftCanonical(e.canon, e.out, e.ident), "C17_CraftCanonical")
        \cup When(e.parser = "craft_multiaddr" /\ e.out # "panic" /\ ~C17_CraftKeepsPeer(e.inp, e.relay, e.ignore, e.out, e.outp),
                  "C17_CraftKeepsPeer")
    ELSE IF e.ev = "Validate" THEN
             When(e.out = "panic", "C17_Total")
        \cup When(e.out # "panic" /\ ~ValidateOK(e.single, e.lo, e.hi, e.count, e.out), "C17_AcceptsExactly")
    ELSE IF e.ev = "Inc" THEN
             When(e.out = "panic", "C17_Total")
        \cup When(e.out # "panic" /\ ~IncOK(e.has, e.p, e.outhas, e.outp), "C17_AcceptsExactly")
    \* the parsed range walked against the ports other services record (none here): an answer, never a crash
    \* and against the ports a non-empty registry records: Ok exactly when none of them lies in the range
    ELSE IF e.ev = "Avail" THEN
             When(e.out = "panic", "C17_Total")
        \cup When(e.out # "panic" /\ ~AvailOK(e.used, e.out), "C17_AcceptsExactly")
    \* the ANT_PEERS list read from the environment
    ELSE IF e.ev = "EnvPeers" THEN
             When(e.out = "panic", "C17_Total")
        \cup When(e.out # "panic" /\ ~EnvPeersOK(e.nok, e.nout, e.same), "C17_AcceptsExactly")
    \* add_node on a loaded registry (service numbers and counts at the edge of u16): an answer, never a crash
    ELSE IF e.ev = "AddNode" THEN
             When(e.out \notin {"ok", "err"}, "C17_Total")
    ELSE {"Malformed"}

Init == l = 1 /\ viol = {}
Next == /\ l <= N
        /\ viol' = IF Cardinality(viol) < MaxReported THEN viol \cup {[clause |-> c, line |-> l] : c \in Falsified(Rec[l])} ELSE viol
        /\ l' = l + 1
Spec == Init /\ [][Next]_vars

Report == l = N + 1 =>
          ndJsonSerialize(IOEnv.OUT, << [lines |-> N, violations |-> SetToSeq(viol)] >>)
=============================================================================
