------------------------------ MODULE MCParsers ------------------------------
(***************************************************************************)
(* Bounded-exhaustive input partition for C17.                             *)
(* Per parser an alphabet of segments that contains the boundary members   *)
(* named in the statement (empty = the empty word, one short, exact, one   *)
(* long, non-hex, multi-byte / non-UTF-8, "0", "65535", "65536", reversed  *)
(* ranges, huge numbers, truncated and foreign files, huge length          *)
(* prefixes).  TLC enumerates every word up to the length bound, computes  *)
(* the expectation of the specification on the abstract attributes of the  *)
(* word (hex parsers) or on the literal string (port grammar), checks the  *)
(* specification's own laws on every case and writes the case list that    *)
(* the driver concretises (8 members per word) and runs on the real code.  *)
(***************************************************************************)
EXTENDS Parsers, TLC, Json, IOUtils, SequencesExt

CONSTANTS MaxWordHex, MaxWordDecrypt, MaxWordPort, MaxWordOpen, MaxWordRec, MaxWordField

Words(A, n) == UNION {[1..m -> A] : m \in 0..n}

\* ---------------------------------------------------------------- hex parsers
\* segments: FULL formatter output, CUT1/CUT2 output without its last 1/2 characters, HALF the first 64
\* characters (the 32-byte meta of a register address), H / HU one lower / upper case hex digit,
\* G a letter that is no hex digit, U8 a two-byte UTF-8 character, SP white space, OX the prefix "0x",
\* SALT / NONCE / TAG 16 / 24 / 32 hex digits, FLIP the output with one digit changed
HexCommon == {"FULL", "CUT1", "CUT2", "H", "HU", "G", "U8", "SP", "OX"}
HexAlphabet(p) == CASE p = "reg_from_hex" -> HexCommon \cup {"HALF"}
                    [] p = "decrypt" -> {"FULL", "CUT1", "CUT2", "SALT", "NONCE", "TAG", "H", "G", "U8", "FLIP"}
                    [] OTHER -> HexCommon
FullLen(p) == CASE p = "reg_from_hex" -> REG_LEN
                [] p = "pad_from_hex" -> PAD_LEN
                [] p = "str_to_addr" -> XOR_LEN
                [] p = "dmc_from_hex" -> 64      \* any even length: only the parity matters
                [] p = "decrypt" -> 200          \* 8 + 12 + 64 + 16 bytes
SegLen(p, s) == CASE s \in {"FULL", "FLIP"} -> FullLen(p)
                  [] s = "CUT1" -> FullLen(p) - 1
                  [] s = "CUT2" -> FullLen(p) - 2
                  [] s = "HALF" -> 64
                  [] s = "SALT" -> 16
                  [] s = "NONCE" -> 24
                  [] s = "TAG" -> 32
                  [] s = "OX" -> 2
                  [] OTHER -> 1
SegHex(s) == s \notin {"G", "U8", "SP", "OX"}
Sum(f) == FoldLeft(LAMBDA acc, x : acc + x, 0, f)
AbsInput(p, w, pw) == [len |-> Sum([i \in DOMAIN w |-> SegLen(p, w[i])]),
                       hex |-> \A i \in DOMAIN w : SegHex(w[i]),
                       fmt |-> w = <<"FULL">>, pw |-> pw, codes |-> <<>>]
HexMax(p) == IF p = "decrypt" THEN MaxWordDecrypt ELSE MaxWordHex
PwSet(p) == IF p = "decrypt" THEN {"right", "wrong", "empty"} ELSE {"na"}
HexCases == UNION {{[parser |-> p, word |-> w, pw |-> pw, codes |-> <<>>, exp |-> Expected(p, AbsInput(p, w, pw))] :
                       w \in Words(HexAlphabet(p), HexMax(p)), pw \in PwSet(p)} : p \in HexParsers}

\* ---------------------------------------------------------------- port grammar (literal segments)
PortSeg == [z |-> <<48>>, one |-> <<49>>, max |-> <<54, 53, 53, 51, 53>>, over |-> <<54, 53, 53, 51, 54>>,
            lead |-> <<48, 48, 55>>, big |-> [i \in 1..20 |-> 57], dash |-> <<DASH>>, plus |-> <<PLUS>>,
            sp |-> <<32>>, x |-> <<120>>]
PortAlphabet == DOMAIN PortSeg
Flat(w) == FoldLeft(LAMBDA acc, s : acc \o PortSeg[s], <<>>, w)
PortCases == {[parser |-> "port_parse", word |-> w, pw |-> "na", codes |-> Flat(w), exp |-> PortSpec(Flat(w)).k] :
                 w \in Words(PortAlphabet, MaxWordPort)}

\* ---------------------------------------------------------------- parsers without an explicit language
OpenAlphabet(p) ==
    CASE p = "atto_from_str" -> {"0", "1", "9", "dot", "us", "plus", "x", "sp", "e", "minus", "u8", "max", "frac18", "frac19"}
      [] p = "craft_multiaddr" -> {"ip4", "ip6", "dns", "udp", "tcp", "tcpbig", "quic", "ws", "p2p", "p2pbad", "circuit", "slash", "junk", "u8"}
      \* tmax / tnear / tday / tu64: every last-seen time of the file at the edge of the representable time range
      \* (i64::MAX seconds, one less, less than a day less, u64::MAX)
      [] p = "cache_load" -> {"FULL", "CUTA", "CUTB", "lb", "rb", "lq", "null", "ff", "huge", "wrongtype", "wsp", "bom",
                              "tmax", "tnear", "tday", "tu64"}
      [] p = "registry_load" -> {"FULL", "CUTA", "CUTB", "lb", "rb", "lq", "null", "ff", "num", "wrongtype", "wsp", "bom"}
      [] p = "registry_from_json" -> {"FULL", "CUTA", "CUTB", "lb", "rb", "lq", "null", "u8", "num", "wrongtype", "wsp", "bom"}
OpenCases == UNION {{[parser |-> p, word |-> w, pw |-> "na", codes |-> <<>>, exp |-> IF w = <<"FULL">> THEN "accept" ELSE "either"] :
                        w \in Words(OpenAlphabet(p), MaxWordOpen)} : p \in OpenParsers}

\* ---------------------------------------------------------------- composite multiaddresses
\* The alphabet above has one protocol per segment, so no word of three segments is a complete address.
\* Composite segments: fullquic /ip4/A/udp/P/quic-v1/p2p/X, fullws /ip4/A/tcp/P/ws/p2p/X, fulled the quic form with
\* an ed25519 identity peer id (12D3KooW...), relay /ip4/A/udp/P/quic-v1/p2p/R/p2p-circuit/p2p/T, bare the
\* quic form without a peer id, p2ped /p2p/<ed25519 id>.  Every word of at most three segments that holds a
\* composite one is enumerated (prefixes, suffixes, a second /p2p, a doubled address, junk around a valid one).
Composite == {"fullquic", "fullws", "fulled", "relay", "bare"}
CompAlphabet == Composite \cup {"p2p", "p2ped", "p2pbad", "circuit", "ip4", "udp", "tcp", "quic", "ws", "slash", "junk"}
CompCases == {[parser |-> "craft_multiaddr", word |-> w, pw |-> "na", codes |-> <<>>, exp |-> "either"] :
                 w \in {x \in Words(CompAlphabet, MaxWordOpen) : \E i \in DOMAIN x : x[i] \in Composite}}

\* ---------------------------------------------------------------- invalid field values inside valid files
\* A field word is a base file followed by at most MaxWordField mutations applied to it in order (each replaces
\* the value of one field of the first node / first peer by an invalid or boundary one; the file stays JSON).
\* Bases: plain = a registry with absent optional parts, rich = one with daemon, faucet, auditor, nat_status,
\* a custom EVM network and every optional field of a node set; c3 = a cache of three fresh peers.
RegistryField == {"pid_bad", "pid_empty", "pid_num", "cp_empty", "cp_bad", "cp_num", "rpc_port", "rpc_noport", "ip_256", "ip_short",
                  "listen_short", "listen_bad", "num_max", "num_over", "port_over", "evm_bad", "nat_bad", "daemon_bad", "status_bad"}
CacheField == {"addr_nop2p", "addr_short", "key_notid", "key_empty", "key_other", "addrs_empty", "cnt_neg",
               "edge1_tmax", "edge1_tnear", "edge1_tday", "edge1_tu64", "edge1_zero"}
FieldAlphabet(p) == IF p = "cache_load" THEN CacheField ELSE RegistryField
FieldBase(p) == IF p = "cache_load" THEN {"c3"} ELSE {"plain", "rich"}
FieldParsers == {"cache_load", "registry_load", "registry_from_json"}
FieldCases == UNION {{[parser |-> p, word |-> <<b>> \o w, pw |-> "field", codes |-> <<>>,
                       \* the untouched base is the formatter's output: it must load
                       exp |-> IF w = <<>> THEN "accept" ELSE "either"] :
                        b \in FieldBase(p), w \in Words(FieldAlphabet(p), MaxWordField)} : p \in FieldParsers}

\* ---------------------------------------------------------------- record bytes
\* HDR a valid 2-byte header, FULL a valid record of the parser's type, CUT1 it without its last byte,
\* single bytes 00 91 c0 ff, and msgpack length prefixes announcing 2^32-1 elements / bytes
RecAlphabet == {"HDR", "FULL", "CUT1", "b00", "b91", "bc0", "bff", "arr32", "bin32", "map32", "rnd"}
RecMinLen(s) == CASE s = "HDR" -> 2 [] s = "FULL" -> 3 [] s = "CUT1" -> 2 [] s \in {"arr32", "bin32", "map32"} -> 5 [] OTHER -> 1
RecAbs(p, w) == [len |-> IF \E i \in DOMAIN w : w[i] \in {"FULL", "arr32", "bin32", "map32"} THEN 3
                         ELSE Sum([i \in DOMAIN w |-> RecMinLen(w[i])]),
                 hex |-> FALSE, fmt |-> w = <<"FULL">>, pw |-> "na", codes |-> <<>>]
RecCases == {[parser |-> p, word |-> w, pw |-> "na", codes |-> <<>>,
              exp |-> LET x == Expected(p, RecAbs(p, w)) IN
                      \* CUT1 of a record longer than 3 bytes still has a header: its length is known to the driver only
                      IF x = "reject" /\ \E i \in DOMAIN w : w[i] = "CUT1" THEN "either" ELSE x] :
                <<p, w>> \in RecordParsers \X Words(RecAlphabet, MaxWordRec)}

Cases == HexCases \cup PortCases \cup OpenCases \cup CompCases \cup FieldCases \cup RecCases

VARIABLE c
Init == c \in Cases
Next == UNCHANGED c
Spec == Init /\ [][Next]_c

\* ---------------------------------------------------------------- laws of the specification itself
LawTotal == c.exp \in {"accept", "reject", "either"}
LawHex == c.parser \in HexParsers =>
    LET x == AbsInput(c.parser, c.word, c.pw) IN
    /\ (~x.hex => c.exp = "reject")
    /\ (c.parser \in {"reg_from_hex", "pad_from_hex", "str_to_addr"} /\ x.len # FullLen(c.parser) => c.exp = "reject")
    /\ (c.word = <<"FULL">> /\ c.pw \in {"right", "na"} => c.exp = "accept")
    /\ (c.word = <<>> /\ c.parser # "dmc_from_hex" => c.exp = "reject")
    /\ (c.parser = "dmc_from_hex" /\ x.hex => (c.exp = "accept") = Even(x.len))
    /\ (c.parser = "decrypt" /\ x.len < ENC_MIN => c.exp = "reject")
\* the new families are not vacuous: a complete address of each composite form, each base file alone, and
\* every single mutation of every base are cases
ASSUME FamiliesComplete ==
    /\ \A s \in Composite : \E x \in CompCases : x.word = <<s>>
    /\ \A p \in FieldParsers : \A b \in FieldBase(p) :
           /\ \E x \in FieldCases : x.parser = p /\ x.word = <<b>> /\ x.exp = "accept"
           /\ \A f \in FieldAlphabet(p) : \E x \in FieldCases : x.parser = p /\ x.word = <<b, f>> /\ x.exp = "either"
LawFamilies == c.pw = "field" => c.parser \in FieldParsers /\ Len(c.word) >= 1 /\ c.word[1] \in FieldBase(c.parser)
LawPort == c.parser = "port_parse" =>
    LET sp == PortSpec(c.codes) IN
    /\ (sp.k # "reject" => sp.lo <= sp.hi /\ sp.hi <= 65535)
    /\ ((\E i \in DOMAIN c.codes : c.codes[i] \in {32, 120}) => sp.k = "reject")
    /\ (sp.k = "accept" /\ ~sp.single => sp.lo < sp.hi)
ASSUME PortExamples ==
    /\ PortSpec(<<48>>) = [k |-> "accept", single |-> TRUE, lo |-> 0, hi |-> 0]
    /\ PortSpec(<<54, 53, 53, 51, 53>>).k = "accept"
    /\ PortSpec(<<54, 53, 53, 51, 54>>).k = "reject"
    /\ PortSpec(<<48, DASH, 54, 53, 53, 51, 53>>) = [k |-> "accept", single |-> FALSE, lo |-> 0, hi |-> 65535]
    /\ PortSpec(<<54, 53, 53, 51, 53, DASH, 48>>).k = "reject"
    /\ PortSpec(<<49, DASH, 49>>).k = "either"
    /\ PortSpec(<<>>).k = "reject"
    /\ PortSpec(<<DASH>>).k = "reject"
    /\ PortSpec(<<49, DASH>>).k = "reject"
    /\ PortSpec(<<49, DASH, 50, DASH, 51>>).k = "reject"
    /\ PortSpec(<<48, 48, 56, 48>>) = [k |-> "accept", single |-> TRUE, lo |-> 80, hi |-> 80]
ASSUME ValidateExamples ==
    /\ ValidateOK(FALSE, 0, 65535, 65535, "err")
    /\ ValidateOK(FALSE, 1, 2, 2, "ok")
    /\ ValidateOK(TRUE, 7, 7, 1, "ok")
    /\ IncOK(TRUE, 65535, FALSE, 0) /\ IncOK(TRUE, 1, TRUE, 2) /\ ~IncOK(TRUE, 1, TRUE, 1)

ASSUME IF "CASES" \in DOMAIN IOEnv
       THEN ndJsonSerialize(IOEnv.CASES, SetToSeq(Cases))
       ELSE TRUE
=============================================================================
