SPECIFICATION Spec
CONSTANTS
  MaxWordHex = 4
  MaxWordDecrypt = 3
  MaxWordPort = 4
  MaxWordOpen = 3
  MaxWordField = 2
  MaxWordRec = 4
INVARIANTS LawTotal LawHex LawPort LawFamilies
CHECK_DEADLOCK FALSE
