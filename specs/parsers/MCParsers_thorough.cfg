SPECIFICATION Spec
CONSTANTS
  MaxWordHex = 4
  MaxWordDecrypt = 3
  MaxWordPort = 5
  MaxWordOpen = 4
  MaxWordRec = 4
INVARIANTS LawTotal LawHex LawPort
CHECK_DEADLOCK FALSE
