----------------------------- MODULE AmountTrace -----------------------------
(***************************************************************************)
(* Trace specification for C16: every line of the trace is one call of the *)
(* real code (ant-evm AttoTokens) with its concrete argument and result;   *)
(* the clause operators of Amount.tla are the oracle.  The spec is         *)
(* deterministic: it consumes one line per step and accumulates the set of *)
(* (clause, line) pairs on which a clause is false.                        *)
(***************************************************************************)
EXTENDS Amount, TLC, Json, IOUtils, FiniteSets

Rec == ndJsonDeserialize(IOEnv.TRACE)
N == Len(Rec)

VARIABLES l, viol
vars == <<l, viol>>

Known(e) == e.ev \in {"Display", "RoundTrip", "Parse", "Add", "Sub"}

\* the clauses of C16 that event e falsifies (a Panic result falsifies the clause of its call)
When(cond, name) == IF cond THEN {name} ELSE {}
Falsified(e) ==
    IF ~Known(e) THEN {"Malformed"} ELSE
         When(e.ev = "Display"   /\ ~(e.res.k = "ok" /\ DisplayOK(e.res.s, e.d)),          "C16_DisplayExact")
    \cup When(e.ev = "RoundTrip" /\ ~(e.res.k = "ok" /\ Strip(e.res.v) = Strip(e.d)),      "C16_RoundTrip")
    \cup When(e.ev = "Parse"     /\ ~ParseOK(e.s, e.res),                                  "C16_ParseExact")
    \cup When(e.ev = "Add"       /\ ~AddOK(e.a, e.b, e.res),                               "C16_CheckedArith")
    \cup When(e.ev = "Sub"       /\ ~SubOK(e.a, e.b, e.res),                               "C16_CheckedArith")

Init == l = 1 /\ viol = {}
Next == /\ l <= N
        /\ viol' = viol \cup {[clause |-> c, line |-> l] : c \in Falsified(Rec[l])}
        /\ l' = l + 1
Spec == Init /\ [][Next]_vars

\* written once, in the state that has consumed the whole trace
Report == l = N + 1 =>
          ndJsonSerialize(IOEnv.OUT, << [lines |-> N, violations |-> SetToSeq(viol)] >>)
=============================================================================
