------------------------------- MODULE Amount -------------------------------
(***************************************************************************)
(* Executable specification of token amounts (property C16).               *)
(*                                                                         *)
(* An amount is a natural number below 2^256 counted in atto (10^-18)      *)
(* tokens.  TLC integers are 32 bit, so naturals are represented as        *)
(* sequences of decimal digits, most significant first, canonical form     *)
(* without leading zeros (zero is the empty sequence).  Strings are        *)
(* sequences of character codes.                                           *)
(*                                                                         *)
(* Written from the statement of C16, not from ant-evm/src/amount.rs.      *)
(***************************************************************************)
EXTENDS Naturals, Sequences, SequencesExt

Digit == 0..9

\* ---------------------------------------------------------------- naturals
RECURSIVE Strip(_)
Strip(d) == IF d # <<>> /\ Head(d) = 0 THEN Strip(Tail(d)) ELSE d

Zeros(n) == [i \in 1..n |-> 0]
PadLeft(d, n)  == IF Len(d) >= n THEN d ELSE Zeros(n - Len(d)) \o d
PadRight(d, n) == IF Len(d) >= n THEN d ELSE d \o Zeros(n - Len(d))

\* lexicographic comparison of equal-length digit sequences: -1, 0, 1 encoded as 0,1,2
RECURSIVE LexCmp(_, _)
LexCmp(a, b) == IF a = <<>> THEN 1
                ELSE IF Head(a) < Head(b) THEN 0
                ELSE IF Head(a) > Head(b) THEN 2
                ELSE LexCmp(Tail(a), Tail(b))

\* 0: a < b, 1: a = b, 2: a > b   (any digit sequences, leading zeros allowed)
CmpD(a0, b0) == LET a == Strip(a0) b == Strip(b0) IN
                IF Len(a) < Len(b) THEN 0
                ELSE IF Len(a) > Len(b) THEN 2
                ELSE LexCmp(a, b)
LeD(a, b) == CmpD(a, b) # 2
LtD(a, b) == CmpD(a, b) = 0

\* schoolbook addition / subtraction on equal-length sequences, least significant digit first.
\* Written as folds with a strict accumulator record: a RECURSIVE operator threading the carry is
\* evaluated lazily by TLC and re-computes the carry chain exponentially often.
Idx(n) == [i \in 1..n |-> n + 1 - i]          \* n, n-1, ..., 1
AddD(a0, b0) ==
    LET n == IF Len(a0) > Len(b0) THEN Len(a0) ELSE Len(b0)
        a == PadLeft(a0, n)  b == PadLeft(b0, n)
        r == FoldLeft(LAMBDA acc, i : LET s == a[i] + b[i] + acc.c
                                      IN [o |-> <<s % 10>> \o acc.o, c |-> s \div 10],
                      [o |-> <<>>, c |-> 0], Idx(n))
    IN Strip((IF r.c = 0 THEN <<>> ELSE <<r.c>>) \o r.o)

\* subtraction, defined for a >= b
SubD(a0, b0) ==
    LET n == IF Len(a0) > Len(b0) THEN Len(a0) ELSE Len(b0)
        a == PadLeft(a0, n)  b == PadLeft(b0, n)
        r == FoldLeft(LAMBDA acc, i : LET x == a[i] + 10 - acc.c - b[i]
                                      IN [o |-> <<x % 10>> \o acc.o, c |-> IF x < 10 THEN 1 ELSE 0],
                      [o |-> <<>>, c |-> 0], Idx(n))
    IN Strip(r.o)

\* 2^256 - 1
MAXD == << 1,1,5,7,9,2,0,8,9,2,3,7,3,1,6,1,9,5,4,2,3,5,7,0,9,8,5,0,0,8,6,8,7,9,0,7,8,5,3,
           2,6,9,9,8,4,6,6,5,6,4,0,5,6,4,0,3,9,4,5,7,5,8,4,0,0,7,9,1,3,1,2,9,6,3,9,9,3,5 >>

Representable(d) == LeD(d, MAXD)

\* ---------------------------------------------------------------- strings
C0 == 48   \* '0'
DOT == 46
PLUS == 43
IsDigitCh(c) == c \in 48..57
AllDigits(s) == \A i \in 1..Len(s) : IsDigitCh(s[i])
ToDigits(s) == [i \in 1..Len(s) |-> s[i] - C0]
ToChars(d)  == [i \in 1..Len(d) |-> d[i] + C0]

FirstDot(s) == IF \E i \in 1..Len(s) : s[i] = DOT
               THEN CHOOSE i \in 1..Len(s) : s[i] = DOT /\ \A j \in 1..(i-1) : s[j] # DOT
               ELSE 0

RECURSIVE TrimZerosRight(_)
TrimZerosRight(d) == IF d # <<>> /\ d[Len(d)] = 0 THEN TrimZerosRight(SubSeq(d, 1, Len(d) - 1)) ELSE d

\* value, in atto, of <integer digits> . <at most 18 fraction digits>
Scaled(ip, fp) == Strip(ip \o PadRight(fp, 18))

\* ------------------------------------------------------------- Display
\* The true value of amount d in whole tokens with 18 fractional digits.
DisplayOf(d0) == LET d == PadLeft(Strip(d0), 19)
                     n == Len(d)
                 IN ToChars(SubSeq(d, 1, n - 18)) \o <<DOT>> \o ToChars(SubSeq(d, n - 17, n))

\* What C16 demands of a printed string s for amount d: it is a plain decimal string -- the whole tokens, a
\* point, and ("with 18 fractional digits") exactly 18 further digits -- whose value is d.
DisplayOK(s, d) ==
    LET i == FirstDot(s)
        ip == IF i = 0 THEN s ELSE SubSeq(s, 1, i - 1)
        fp == IF i = 0 THEN <<>> ELSE SubSeq(s, i + 1, Len(s))
    IN /\ ip # <<>> /\ AllDigits(ip) /\ AllDigits(fp)
       /\ i # 0 /\ Len(fp) = 18
       /\ Scaled(ToDigits(ip), ToDigits(fp)) = Strip(d)

\* ------------------------------------------------------------- Parse
\* Result of the specification: [k |-> "accept", v |-> digits]   must be Ok(v)
\*                              [k |-> "reject"]                  must be Err
\*                              [k |-> "either", v |-> digits]   Err or Ok(v): strings whose
\*   status as "a decimal string with at most 18 fractional digits" is a matter of reading
\*   (no integer part: ".5"; more than 18 fraction digits of which the excess are zeros;
\*   an explicit plus sign).  Whatever is accepted must carry the true value.
Reject == [k |-> "reject"]
ParseBody(s) ==
    LET i == FirstDot(s)
        ip == IF i = 0 THEN s ELSE SubSeq(s, 1, i - 1)
        fp == IF i = 0 THEN <<>> ELSE SubSeq(s, i + 1, Len(s))
    IN IF ~AllDigits(ip) \/ ~AllDigits(fp) THEN Reject
       ELSE IF ip = <<>> /\ fp = <<>> THEN Reject
       ELSE LET f == TrimZerosRight(ToDigits(fp)) IN
            IF Len(f) > 18 THEN Reject
            ELSE LET v == Scaled(ToDigits(ip), f) IN
                 IF ~Representable(v) THEN Reject
                 ELSE IF ip = <<>> \/ Len(fp) > 18 THEN [k |-> "either", v |-> v]
                 ELSE [k |-> "accept", v |-> v]

ParseSpec(s) == IF s # <<>> /\ s[1] = PLUS
                THEN LET r == ParseBody(Tail(s)) IN
                     IF r.k = "reject" THEN Reject ELSE [k |-> "either", v |-> r.v]
                ELSE ParseBody(s)

\* res: [k |-> "ok", v |-> digits] | [k |-> "err"] | [k |-> "panic"]
ParseOK(s, res) == LET sp == ParseSpec(s) IN
    CASE sp.k = "accept" -> res.k = "ok" /\ Strip(res.v) = sp.v
      [] sp.k = "reject" -> res.k = "err"
      [] sp.k = "either" -> res.k = "err" \/ (res.k = "ok" /\ Strip(res.v) = sp.v)

\* ------------------------------------------------------------- checked arithmetic
\* res: [k |-> "some", v |-> digits] | [k |-> "none"] | [k |-> "panic"]
AddOK(a, b, res) == LET s == AddD(a, b) IN
    IF Representable(s) THEN res.k = "some" /\ Strip(res.v) = s ELSE res.k = "none"
SubOK(a, b, res) ==
    IF LeD(b, a) THEN res.k = "some" /\ Strip(res.v) = SubD(a, b) ELSE res.k = "none"

\* round trip of the specification itself (checked on the model, sanity of the oracle)
SpecRoundTrip(d) == LET r == ParseSpec(DisplayOf(d)) IN r.k = "accept" /\ r.v = Strip(d)
=============================================================================
