------------------------------ MODULE MCAmount ------------------------------
(***************************************************************************)
(* Bounded-exhaustive enumeration for C16.                                 *)
(*  - every string over a small alphabet (digits 0 1 9, '.', '_', '+',    *)
(*    'x', ' ', line feed) up to length MaxLen,                            *)
(*  - amounts  m * 10^k  for short mantissas m and the exponents at which  *)
(*    printing/parsing change shape (around 9, 18, and the top of the      *)
(*    256-bit range),                                                      *)
(*  - pairs of boundary amounts for checked addition / subtraction.        *)
(* TLC checks the algebraic laws of the executable specification itself on *)
(* every case (so that the oracle is not vacuous or self-contradictory)    *)
(* and writes the case list that the driver replays into the real code.    *)
(***************************************************************************)
EXTENDS Amount, TLC, Json, IOUtils, FiniteSets, SequencesExt

CONSTANTS MaxLen, MaxMant

Alphabet == {48, 49, 57, 46, 95, 43, 120, 32, 10}
Strings == UNION {[1..n -> Alphabet] : n \in 0..MaxLen}

MantDigits == {0, 1, 9}
Mantissas == UNION {[1..n -> MantDigits] : n \in 1..MaxMant}
Exps == {0, 1, 8, 9, 10, 17, 18, 19, 40, 59, 60, 74, 75, 76, 77}
Amounts == {d \in {Strip(m \o Zeros(k)) : m \in Mantissas, k \in Exps} : Representable(d)}

One == <<1>>
Boundary == { <<>>, One, <<1>> \o Zeros(18), MAXD, SubD(MAXD, One),
              <<5,7,8,9,6,0,4,4,6,1,8,6,5,8,0,9,7,7,1,1,7,8,5,4,9,2,5,0,4,3,4,3,9,5,3,9,2,6,6,
                3,4,9,9,2,3,3,2,8,2,0,2,8,2,0,1,9,7,2,8,7,9,2,0,0,3,9,5,6,5,6,4,8,1,9,9,6,7>>,  \* 2^255 - 1
              <<5,7,8,9,6,0,4,4,6,1,8,6,5,8,0,9,7,7,1,1,7,8,5,4,9,2,5,0,4,3,4,3,9,5,3,9,2,6,6,
                3,4,9,9,2,3,3,2,8,2,0,2,8,2,0,1,9,7,2,8,7,9,2,0,0,3,9,5,6,5,6,4,8,1,9,9,6,8>>,  \* 2^255
              <<1,8,4,4,6,7,4,4,0,7,3,7,0,9,5,5,1,6,1,5>>,                                        \* 2^64 - 1
              \* the machine-word boundaries inside the 256-bit range (a carry has to cross them):
              \* 2^64, 2^127, 2^128 - 1, 2^128, 2^128 + 1, 2^192 - 1, 2^192
              <<1,8,4,4,6,7,4,4,0,7,3,7,0,9,5,5,1,6,1,6>>,
              <<1,7,0,1,4,1,1,8,3,4,6,0,4,6,9,2,3,1,7,3,1,6,8,7,3,0,3,7,1,5,8,8,4,1,0,5,7,2,8>>,
              <<3,4,0,2,8,2,3,6,6,9,2,0,9,3,8,4,6,3,4,6,3,3,7,4,6,0,7,4,3,1,7,6,8,2,1,1,4,5,5>>,
              <<3,4,0,2,8,2,3,6,6,9,2,0,9,3,8,4,6,3,4,6,3,3,7,4,6,0,7,4,3,1,7,6,8,2,1,1,4,5,6>>,
              <<3,4,0,2,8,2,3,6,6,9,2,0,9,3,8,4,6,3,4,6,3,3,7,4,6,0,7,4,3,1,7,6,8,2,1,1,4,5,7>>,
              <<6,2,7,7,1,0,1,7,3,5,3,8,6,6,8,0,7,6,3,8,3,5,7,8,9,4,2,3,2,0,7,6,6,6,4,1,6,1,0,2,3,5,5,4,4,4,4,6,4,0,3,4,5,1,2,8,9,5>>,
              <<6,2,7,7,1,0,1,7,3,5,3,8,6,6,8,0,7,6,3,8,3,5,7,8,9,4,2,3,2,0,7,6,6,6,4,1,6,1,0,2,3,5,5,4,4,4,4,6,4,0,3,4,5,1,2,8,9,6>> }
Pairs == Boundary \X Boundary

Cases == {[kind |-> "str", s |-> s] : s \in Strings}
   \cup  {[kind |-> "amt", d |-> d] : d \in Amounts \cup Boundary}
   \cup  {[kind |-> "pair", a |-> p[1], b |-> p[2]] : p \in Pairs}

VARIABLE c
Init == c \in Cases
Next == UNCHANGED c
Spec == Init /\ [][Next]_c

\* ---- laws of the specification itself
SpecDisplayParse == c.kind = "amt" => /\ SpecRoundTrip(c.d)
                                      /\ DisplayOK(DisplayOf(c.d), c.d)
SpecArith == c.kind = "pair" =>
    /\ AddD(c.a, c.b) = AddD(c.b, c.a)
    /\ SubD(AddD(c.a, c.b), c.b) = Strip(c.a)
    /\ (LeD(c.b, c.a) => AddD(SubD(c.a, c.b), c.b) = Strip(c.a))
    /\ LeD(c.a, AddD(c.a, c.b))
SpecParseShape == c.kind = "str" =>
    LET r == ParseSpec(c.s) IN
    /\ r.k \in {"accept", "reject", "either"}
    /\ (r.k # "reject" => Representable(r.v) /\ r.v = Strip(r.v))
    \* a string with a foreign character is never acceptable
    /\ ((\E i \in 1..Len(c.s) : c.s[i] \in {95, 120, 32, 10}) => r.k = "reject")
    \* accepted strings print back to something that parses to the same value
    /\ (r.k = "accept" => ParseSpec(DisplayOf(r.v)).v = r.v)
ASSUME MaxIs78 == Len(MAXD) = 78
\* leading zeros do not change what a decimal string denotes: an integer part far longer than the 78 digits of the
\* largest amount is accepted when its value is representable, rejected when it is not; line ends are foreign;
\* the printed form has exactly 18 fraction digits
ASSUME LongZeros ==
    LET z == [i \in 1..100 |-> 48] IN
    /\ ParseSpec(z \o <<49, 46, 53>>) = [k |-> "accept", v |-> <<1, 5>> \o Zeros(17)]
    /\ ParseSpec(z) = [k |-> "accept", v |-> <<>>]
    /\ ParseSpec(z \o ToChars(MAXD)).k = "reject"
    /\ ParseSpec(z \o DisplayOf(MAXD)) = [k |-> "accept", v |-> MAXD]
    /\ ParseSpec(<<49, 10>>).k = "reject" /\ ParseSpec(<<49, 13>>).k = "reject" /\ ParseSpec(<<10, 49>>).k = "reject"
ASSUME Exactly18 ==
    /\ DisplayOK(<<49, 46>> \o [i \in 1..18 |-> 48], <<1>> \o Zeros(18))
    /\ ~DisplayOK(<<49, 46>> \o [i \in 1..17 |-> 48], <<1>> \o Zeros(18))
    /\ ~DisplayOK(<<49>>, <<1>> \o Zeros(18))
    /\ ~DisplayOK(<<49, 46, 53>>, <<1, 5>> \o Zeros(17))

\* ---- case list for the driver (written once, when TLC evaluates the assumption)
CaseOut(x) == IF x.kind = "str" THEN [kind |-> "str", s |-> x.s, exp |-> ParseSpec(x.s).k]
              ELSE x
ASSUME IF "CASES" \in DOMAIN IOEnv
       THEN ndJsonSerialize(IOEnv.CASES, SetToSeq({CaseOut(x) : x \in Cases}))
       ELSE TRUE
=============================================================================
