SPECIFICATION Spec
CONSTANTS
  MaxLen = 4
  MaxMant = 3
INVARIANTS SpecDisplayParse SpecArith SpecParseShape
CHECK_DEADLOCK FALSE
