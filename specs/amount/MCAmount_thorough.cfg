SPECIFICATION Spec
CONSTANTS
  MaxLen = 5
  MaxMant = 4
INVARIANTS SpecDisplayParse SpecArith SpecParseShape
CHECK_DEADLOCK FALSE
