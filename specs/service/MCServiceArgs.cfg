SPECIFICATION Spec
CONSTANTS
  P = 29
  Strength = 2
INVARIANTS CaseInstallable SpecCoherent
CHECK_DEADLOCK FALSE
