SPECIFICATION Spec
CONSTANTS
  P = 31
  Strength = 2
INVARIANTS CaseInstallable SpecCoherent
CHECK_DEADLOCK FALSE
