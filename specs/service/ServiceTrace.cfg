SPECIFICATION Spec
CONSTANTS
  StrictPid = TRUE
  NumberByMax = TRUE
INVARIANT Report
CHECK_DEADLOCK FALSE
