---------------------------- MODULE ServiceArgs ----------------------------
(***************************************************************************)
(* C20 -- executable specification of the contract between antctl (which   *)
(* writes service definitions) and antnode (which is launched with them).  *)
(*                                                                         *)
(*   o : an option combination (abstract values, enumerated by TLC)        *)
(*   c : the concrete values used for it (strings; chosen by the driver,   *)
(*       values the manager allocates itself are read from its registry)   *)
(*                                                                         *)
(*   Installable(o)   combinations antctl's own CLI accepts (clap conflicts *)
(*                    of the flattened PeersArgs)                          *)
(*   Args(o, c)       the argument list of the service definition          *)
(*   Pairs(tokens)    tokenisation into (flag, value) pairs by the node's  *)
(*                    flag table (flags after the EVM subcommand belong to *)
(*                    it)                                                  *)
(*   NodeInterp(p)    what antnode's CLI makes of the pairs (defaults for  *)
(*                    absent options); Accept(p) whether it takes them     *)
(*   Intended(o, c)   the configuration the user asked for                 *)
(*                                                                         *)
(* Clauses: C20_UpgradeKeeps, C20_AcceptedByNode (on one recorded case).   *)
(***************************************************************************)
EXTENDS Naturals, Sequences, FiniteSets, SequencesExt, Functions

BoolDims == {"first", "local", "icache", "testnet", "cdir", "home", "upnp", "um", "env", "arst", "uenv", "multi", "started"}
Dims == <<"evm", "nport", "rport", "raddr", "mport", "ip", "first", "local", "peers", "urls", "icache", "testnet", "cdir",
          "lfmt", "ldir", "march", "mlog", "owner", "home", "upnp", "um", "env", "arst", "rew", "netid", "uenv", "second",
          "nat", "multi", "started">>
Vals(d) == CASE d = "evm"   -> <<"one", "sepolia", "custom">>
             [] d = "mport" -> <<"none", "some", "auto">>
             [] d \in {"nport", "rport", "raddr", "ip", "march", "mlog", "netid"} -> <<"none", "some">>
             [] d \in {"peers", "urls"} -> <<0, 1, 2>>
             [] d = "lfmt"  -> <<"none", "default", "json">>
             [] d = "ldir"  -> <<"custom", "default">>
             [] d = "owner" -> <<"none", "lower", "mixed">>
             \* a SECOND service is added between the installation and the upgrade of the first: none / one added
             \* without --env / one added with another --env
             [] d = "second" -> <<"none", "noenv", "otherenv">>
             [] d = "rew"   -> <<1, 2>>
             \* `antctl add --auto-set-nat-flags` after `antctl nat-detection` recorded this status ("off": neither)
             [] d = "nat"   -> <<"off", "Public", "UPnP", "Private">>
             \* multi:   `--count 2` with port ranges, the service under test is the SECOND of the batch
             \* started: the service is started (antctl start) between its installation and its upgrade
             [] d \in BoolDims -> <<FALSE, TRUE>>

\* antctl add: --peer and --network-contacts-url conflict with --first, --local with --network-contacts-url
\* (these the node's CLI rejects as well)
PeersInstallable(o) == /\ (o.first => (o.peers = 0 /\ o.urls = 0))
                       /\ (o.local => o.urls = 0)
\* antctl add: --count conflicts with --first
Installable(o) == PeersInstallable(o) /\ (o.first => ~o.multi)

\* --auto-set-nat-flags "will override any --upnp or --home-network options" (antctl add --help): Public -> neither,
\* UPnP -> --upnp only, Private -> --home-network only
EffHome(o) == IF o.nat = "off" THEN o.home ELSE o.nat = "Private"
EffUpnp(o) == IF o.nat = "off" THEN o.upnp ELSE o.nat = "UPnP"

-----------------------------------------------------------------------------
JoinC(s) == IF s = <<>> THEN "" ELSE FoldLeft(LAMBDA acc, x : acc \o "," \o x, s[1], Tail(s))
Opt(cond, toks) == IF cond THEN toks ELSE <<>>

DataDir(o, c) == c.data_base \o "/" \o c.name
LogDir(o, c)  == IF o.um /\ o.ldir = "default" THEN c.log_base \o "/" \o c.name \o "/logs"
                 ELSE c.log_base \o "/" \o c.name
RpcOf(o, c)   == (IF o.raddr = "some" THEN c.raddr ELSE c.raddr_default) \o ":"
                 \o (IF o.rport = "some" THEN c.rport ELSE c.rec_rpc_port)
MetricsOf(o, c) == CASE o.mport = "some" -> c.mport
                     [] o.mport = "auto" -> c.rec_mport       \* allocated by the manager, recorded in its registry
                     [] OTHER -> "0"
EvmCmd(o) == CASE o.evm = "one" -> "evm-arbitrum-one" [] o.evm = "sepolia" -> "evm-arbitrum-sepolia" [] OTHER -> "evm-custom"

Args(o, c) ==
       <<"--rpc", RpcOf(o, c), "--root-dir", DataDir(o, c), "--log-output-dest", LogDir(o, c)>>
    \o Opt(o.first, <<"--first">>)
    \o Opt(o.local, <<"--local">>)
    \o Opt(o.peers > 0, <<"--peer", JoinC(SubSeq(c.addrs, 1, o.peers))>>)
    \o Opt(o.urls > 0, <<"--network-contacts-url", JoinC(SubSeq(c.urls, 1, o.urls))>>)
    \o Opt(o.testnet, <<"--testnet">>)
    \o Opt(o.icache, <<"--ignore-cache">>)
    \o Opt(o.cdir, <<"--bootstrap-cache-dir", c.cdir>>)
    \o Opt(o.netid = "some", <<"--network-id", c.netid>>)
    \o Opt(EffHome(o), <<"--home-network">>)
    \o Opt(o.lfmt # "none", <<"--log-format", o.lfmt>>)
    \o Opt(EffUpnp(o), <<"--upnp">>)
    \o Opt(o.ip = "some", <<"--ip", c.ip>>)
    \o Opt(o.nport = "some", <<"--port", c.nport>>)
    \o Opt(o.mport # "none", <<"--metrics-server-port", MetricsOf(o, c)>>)
    \o Opt(o.owner # "none", <<"--owner", c.owner>>)
    \o Opt(o.march = "some", <<"--max-archived-log-files", c.march>>)
    \o Opt(o.mlog = "some", <<"--max-log-files", c.mlog>>)
    \o <<"--rewards-address", c.rewards>>
    \o <<EvmCmd(o)>>
    \o Opt(o.evm = "custom", <<"--rpc-url", c.evm_url, "--payment-token-address", c.evm_pta,
                              "--data-payments-address", c.evm_dpa>>)

-----------------------------------------------------------------------------
(* antnode's command line *)
BoolFlags == {"--first", "--local", "--testnet", "--ignore-cache", "--upnp", "--home-network"}
ValFlags  == {"--rpc", "--root-dir", "--log-output-dest", "--peer", "--network-contacts-url", "--bootstrap-cache-dir",
              "--log-format", "--network-id", "--ip", "--port", "--metrics-server-port", "--max-archived-log-files",
              "--max-log-files", "--owner", "--rewards-address"}
SubFlags  == {"--rpc-url", "--payment-token-address", "--data-payments-address"}
SubCmds   == {"evm-arbitrum-one", "evm-arbitrum-sepolia", "evm-custom"}
MultiFlags == {"--peer", "--network-contacts-url"}      \* may be given more than once

Tok(acc, t) ==
    IF ~acc.ok THEN acc
    ELSE IF acc.pend # "" THEN [acc EXCEPT !.pairs = Append(@, <<acc.pend, t>>), !.pend = ""]
    ELSE IF t \in BoolFlags THEN (IF acc.sub # "" THEN [acc EXCEPT !.ok = FALSE] ELSE [acc EXCEPT !.pairs = Append(@, <<t, "">>)])
    ELSE IF t \in ValFlags  THEN (IF acc.sub # "" THEN [acc EXCEPT !.ok = FALSE] ELSE [acc EXCEPT !.pend = t])
    ELSE IF t \in SubFlags  THEN (IF acc.sub = "evm-custom" THEN [acc EXCEPT !.pend = t] ELSE [acc EXCEPT !.ok = FALSE])
    ELSE IF t \in SubCmds   THEN (IF acc.sub # "" THEN [acc EXCEPT !.ok = FALSE]
                                  ELSE [acc EXCEPT !.sub = t, !.pairs = Append(@, <<"<evm>", t>>)])
    ELSE [acc EXCEPT !.ok = FALSE]
Pairs(tokens) == LET r == FoldLeft(Tok, [pairs |-> <<>>, pend |-> "", sub |-> "", ok |-> TRUE], tokens)
                 IN [pairs |-> r.pairs, ok |-> r.ok /\ r.pend = ""]

BagOf(s) == [x \in {s[i] : i \in DOMAIN s} |-> Cardinality({i \in DOMAIN s : s[i] = x})]

Has(p, f)      == \E i \in DOMAIN p : p[i][1] = f
Count(p, f)    == Cardinality({i \in DOMAIN p : p[i][1] = f})
ValOf(p, f, d) == IF Has(p, f) THEN p[CHOOSE i \in DOMAIN p : p[i][1] = f][2] ELSE d
AllOf(p, f)    == LET idx == {i \in DOMAIN p : p[i][1] = f}
                  IN JoinC([k \in 1..Cardinality(idx) |-> p[CHOOSE i \in idx : Cardinality({j \in idx : j < i}) = k - 1][2]])

Accept(p) == /\ \A i \in DOMAIN p : (p[i][1] \notin MultiFlags => Count(p, p[i][1]) = 1)
             /\ Has(p, "--rewards-address")
             /\ ~(Has(p, "--first") /\ (Has(p, "--peer") \/ Has(p, "--network-contacts-url")))
             /\ ~(Has(p, "--local") /\ Has(p, "--network-contacts-url"))
             /\ (ValOf(p, "<evm>", "") = "evm-custom" =>
                     (Has(p, "--rpc-url") /\ Has(p, "--payment-token-address") /\ Has(p, "--data-payments-address")))
             /\ ValOf(p, "--log-format", "default") \in {"default", "json"}

NodeInterp(p) ==
    [home |-> Has(p, "--home-network"), upnp |-> Has(p, "--upnp"),
     log_dest |-> ValOf(p, "--log-output-dest", "data-dir"), log_format |-> ValOf(p, "--log-format", ""),
     max_log |-> ValOf(p, "--max-log-files", ""), max_arch |-> ValOf(p, "--max-archived-log-files", ""),
     network_id |-> ValOf(p, "--network-id", ""), rewards |-> ValOf(p, "--rewards-address", ""),
     evm_kind |-> ValOf(p, "<evm>", ""), evm_url |-> ValOf(p, "--rpc-url", ""),
     evm_pta |-> ValOf(p, "--payment-token-address", ""), evm_dpa |-> ValOf(p, "--data-payments-address", ""),
     root_dir |-> ValOf(p, "--root-dir", ""), port |-> ValOf(p, "--port", "0"), ip |-> ValOf(p, "--ip", "0.0.0.0"),
     rpc |-> ValOf(p, "--rpc", ""), owner |-> ValOf(p, "--owner", ""), mport |-> ValOf(p, "--metrics-server-port", "0"),
     first |-> Has(p, "--first"), local |-> Has(p, "--local"), addrs |-> AllOf(p, "--peer"),
     urls |-> AllOf(p, "--network-contacts-url"), testnet |-> Has(p, "--testnet"), icache |-> Has(p, "--ignore-cache"),
     cdir |-> ValOf(p, "--bootstrap-cache-dir", ""),
     \* past the command line: the socket the node listens on, and whether its metrics server is on
     sock |-> ValOf(p, "--ip", "0.0.0.0") \o ":" \o ValOf(p, "--port", "0"),
     metrics_on |-> Has(p, "--enable-metrics-server") \/ ValOf(p, "--metrics-server-port", "0") # "0"]

Intended(o, c) ==
    [home |-> EffHome(o), upnp |-> EffUpnp(o),
     log_dest |-> LogDir(o, c), log_format |-> IF o.lfmt = "none" THEN "" ELSE o.lfmt,
     max_log |-> IF o.mlog = "some" THEN c.mlog ELSE "", max_arch |-> IF o.march = "some" THEN c.march ELSE "",
     network_id |-> IF o.netid = "some" THEN c.netid ELSE "", rewards |-> c.rewards,
     evm_kind |-> EvmCmd(o), evm_url |-> IF o.evm = "custom" THEN c.evm_url ELSE "",
     evm_pta |-> IF o.evm = "custom" THEN c.evm_pta ELSE "", evm_dpa |-> IF o.evm = "custom" THEN c.evm_dpa ELSE "",
     root_dir |-> DataDir(o, c), port |-> IF o.nport = "some" THEN c.nport ELSE "0",
     ip |-> IF o.ip = "some" THEN c.ip ELSE "0.0.0.0", rpc |-> RpcOf(o, c),
     owner |-> IF o.owner = "none" THEN "" ELSE c.owner, mport |-> MetricsOf(o, c),
     first |-> o.first, local |-> o.local, addrs |-> JoinC(SubSeq(c.addrs, 1, o.peers)),
     urls |-> JoinC(SubSeq(c.urls, 1, o.urls)), testnet |-> o.testnet, icache |-> o.icache,
     cdir |-> IF o.cdir THEN c.cdir ELSE "",
     \* the node listens on the requested ip / port (any / OS-chosen when not requested); its metrics server is on iff
     \* metrics were requested (a port, or "enable" with a manager-allocated port)
     sock |-> (IF o.ip = "some" THEN c.ip ELSE "0.0.0.0") \o ":" \o (IF o.nport = "some" THEN c.nport ELSE "0"),
     metrics_on |-> o.mport # "none"]

\* [C20-7] DECISION.  A service that has been started records the port its node listens on (NodeService::on_start:
\* "This will cause the node to have a different port during upgrade" when it cannot); that port is recorded
\* configuration of the service from then on, exactly like a requested --port.  So the definition regenerated by an
\* upgrade AFTER a start launches the node with the installation's arguments plus `--port <the port it listened on>` when
\* no port was requested at installation (with a requested port the node listened on that port and nothing differs).
\* Both directions are judged: a lost pin and a pin to anything but the port the process listened on are violations.
Pinned(o) == o.started /\ o.nport = "none"
IntendedU(o, c) == IF Pinned(o)
                   THEN [Intended(o, c) EXCEPT !.port = c.listen,
                                               !.sock = (IF o.ip = "some" THEN c.ip ELSE "0.0.0.0") \o ":" \o c.listen]
                   ELSE Intended(o, c)

\* the interpretation dumped by the real binary (hook H7), in the shape of NodeInterp
DumpInterp(d) ==
    [home |-> d.home, upnp |-> d.upnp, log_dest |-> d.log_dest, log_format |-> d.log_format, max_log |-> d.max_log,
     max_arch |-> d.max_arch, network_id |-> d.network_id, rewards |-> d.rewards, evm_kind |-> d.evm_kind,
     evm_url |-> d.evm_url, evm_pta |-> d.evm_pta, evm_dpa |-> d.evm_dpa, root_dir |-> d.root_dir, port |-> d.port,
     ip |-> d.ip, rpc |-> d.rpc, owner |-> d.owner, mport |-> d.mport, first |-> d.first, local |-> d.local,
     addrs |-> JoinC(d.addrs), urls |-> JoinC(d.urls), testnet |-> d.testnet, icache |-> d.icache, cdir |-> d.cdir,
     \* node_socket_addr as main.rs computes it; the metrics server is on iff `enable_metrics_server || port != 0`
     \* (main.rs run_node: the derived Option is not dumped by H7, its two inputs are)
     sock |-> d.sock, metrics_on |-> d.menable \/ d.mport # "0"]

-----------------------------------------------------------------------------
(* Clauses, on one recorded case e = [o, conc, install, upgrade, node_i, node_u, ...] *)

ArgBagA(args) == LET p == Pairs(args) IN IF p.ok THEN BagOf(p.pairs) ELSE BagOf(args)
ArgBag(ctx) == ArgBagA(ctx.args)
\* the arguments the upgrade must regenerate: those of the installation (+ the port pinned by a start, see Pinned)
PinToks(e) == IF Pinned(e.o) THEN <<"--port", e.conc.listen>> ELSE <<>>

\* the definition regenerated at upgrade = the definition written at installation, except what the upgrade names (--env)
C20_UpgradeKeeps(e) ==
    /\ e.add_res = "Ok" /\ e.upg_res = "Ok" /\ e.has_install /\ e.has_upgrade
    /\ (Pinned(e.o) => e.conc.listen \notin {"", "0"})
    /\ ArgBag(e.upgrade) = ArgBagA(PinToks(e) \o e.install.args)
    /\ e.upgrade_um = e.install_um                       \* installed for the same user / at the same level
    /\ e.upgrade.label = e.install.label
    /\ e.upgrade.program = e.install.program
    /\ e.upgrade.has_user = e.install.has_user /\ e.upgrade.username = e.install.username
    /\ e.upgrade.workdir = e.install.workdir
    /\ e.upgrade.contents = e.install.contents
    /\ e.upgrade.autostart = e.install.autostart
    /\ IF e.o.uenv THEN e.upgrade.has_env /\ e.upgrade.env = e.conc.uenv
       ELSE e.upgrade.has_env = e.install.has_env /\ e.upgrade.env = e.install.env

\* Known finding C20-environment-is-registry-wide: the environment lives in the registry, not with the service; a
\* later `add --env` replaces it, and an upgrade that names no --env regenerates EVERY service with the latest one
KF_C20_1(e) ==
    /\ e.add_res = "Ok" /\ e.upg_res = "Ok" /\ e.has_install /\ e.has_upgrade
    /\ e.o.second = "otherenv" /\ ~e.o.uenv
    /\ e.upgrade.has_env /\ e.upgrade.env = e.conc.oenv
    /\ C20_UpgradeKeeps([e EXCEPT !.upgrade.has_env = e.install.has_env, !.upgrade.env = e.install.env])

\* the install definition itself carries the requested program / user / environment / autostart
C20_InstallAsAsked(e) ==
    /\ e.has_install
    /\ e.install.program = e.conc.program
    /\ e.install.autostart = e.o.arst
    /\ e.install_um = e.o.um
    /\ (IF e.o.um THEN ~e.install.has_user ELSE e.install.has_user /\ e.install.username = e.conc.user)
    /\ (IF e.o.env THEN e.install.has_env /\ e.install.env = e.conc.env ELSE ~e.install.has_env)

\* the lists are compared as lists: as many peers / contact URLs as were asked for (a node that takes the manager's
\* comma-joined value as ONE item has the same joined text -- seeded/C20-9)
ListsTaken(n, e) == Len(n.dump.urls) = e.o.urls /\ Len(n.dump.addrs) = e.o.peers
NodeTakes(n, e) == n.ok /\ DumpInterp(n.dump) = Intended(e.o, e.conc) /\ ListsTaken(n, e)
NodeTakesU(n, e) == n.ok /\ DumpInterp(n.dump) = IntendedU(e.o, e.conc) /\ ListsTaken(n, e)
\* antnode accepts each argument list and interprets it as the intended configuration
C20_AcceptedByNode(e) ==
    e.node_checked => /\ (e.has_install => NodeTakes(e.node_i, e))
                      /\ (e.has_upgrade => NodeTakesU(e.node_u, e))

\* not part of the verdict: the real install arguments differ from the specification's Args (drift)
SpecArgsAgree(e) == e.has_install => ArgBag(e.install) = BagOf(Pairs(Args(e.o, e.conc)).pairs)
=============================================================================
