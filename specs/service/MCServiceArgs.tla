--------------------------- MODULE MCServiceArgs ---------------------------
(***************************************************************************)
(* Case generation for C20 and the laws of the executable specification.   *)
(*                                                                         *)
(* The 30 dimensions (Dims) are the columns of an orthogonal array over    *)
(* Z_P (P prime >= number of columns): row (a, b, c) has in column j the   *)
(* value a + j*b + j*j*c mod P, reduced modulo the number of values of the *)
(* dimension.  With c = 0 (Strength = 2, P*P rows) every pair of values of *)
(* every two dimensions occurs, with c ranging over Z_P (Strength = 3,     *)
(* P*P*P rows) every triple.  Rows that antctl's CLI would reject are      *)
(* repaired (the conflicting peers options are dropped); TLC then CHECKS   *)
(* that every installable pair of values is still covered.                 *)
(***************************************************************************)
EXTENDS ServiceArgs, TLC, Json, IOUtils

CONSTANTS P, Strength

DimSet == {Dims[i] : i \in DOMAIN Dims}
Idx(d) == (CHOOSE i \in DOMAIN Dims : Dims[i] = d) - 1
Pick(s, x) == s[(x % Len(s)) + 1]
Row(a, b, cc) == [d \in DimSet |-> Pick(Vals(d), (a + Idx(d) * b + Idx(d) * Idx(d) * cc) % P)]
Repair(o) == LET o1 == IF o.first THEN [o EXCEPT !.peers = 0, !.urls = 0, !.multi = FALSE] ELSE o
             IN IF o1.local THEN [o1 EXCEPT !.urls = 0] ELSE o1
CC == IF Strength = 3 THEN 0..(P - 1) ELSE {0}
Rows  == {Row(a, b, cc) : a \in 0..(P - 1), b \in 0..(P - 1), cc \in CC}
Cases == {Repair(r) : r \in Rows}

\* symbolic concrete values for checking the specification against itself
SymC == [data_base |-> "/d", name |-> "antnode1", log_base |-> "/l", raddr |-> "192.168.22.4", raddr_default |-> "127.0.0.1",
         rport |-> "13001", rec_rpc_port |-> "30001", mport |-> "14001", rec_mport |-> "30002",
         addrs |-> <<"/ip4/a", "/ip4/b">>, urls |-> <<"http://u1", "http://u2">>, cdir |-> "/c", netid |-> "7",
         ip |-> "10.1.2.3", nport |-> "12001", owner |-> "alice", march |-> "5", mlog |-> "7", rewards |-> "0xR",
         evm_url |-> "http://rpc/", evm_pta |-> "0xP", evm_dpa |-> "0xD", listen |-> "40001"]

VARIABLE c
Init == c \in Cases
Next == UNCHANGED c
Spec == Init /\ [][Next]_c

\* ---- laws of the specification itself, on every case
CaseInstallable == Installable(c)
SpecCoherent == LET p == Pairs(Args(c, SymC))
                IN /\ p.ok
                   /\ Accept(p.pairs)
                   /\ NodeInterp(p.pairs) = Intended(c, SymC)
                   \* the arguments expected after an upgrade (pinned port) are interpreted as IntendedU
                   /\ LET q == Pairs(PinToks([o |-> c, conc |-> SymC]) \o Args(c, SymC))
                      IN q.ok /\ Accept(q.pairs) /\ NodeInterp(q.pairs) = IntendedU(c, SymC)

\* the specified node CLI rejects what antctl's CLI rejects
ASSUME RejectsNonInstallable ==
    \A r \in {x \in {Row(a, b, 0) : a \in 0..(P - 1), b \in 0..(P - 1)} : ~PeersInstallable(x)} :
        ~Accept(Pairs(Args(r, SymC)).pairs)

\* ---- every installable pair of option values occurs in some case
Conflict(d1, v1, d2, v2) ==
    \/ (d1 = "first" /\ v1 /\ d2 \in {"peers", "urls"} /\ v2 > 0)
    \/ (d2 = "first" /\ v2 /\ d1 \in {"peers", "urls"} /\ v1 > 0)
    \/ (d1 = "local" /\ v1 /\ d2 = "urls" /\ v2 > 0)
    \/ (d2 = "local" /\ v2 /\ d1 = "urls" /\ v1 > 0)
    \/ (d1 = "first" /\ v1 /\ d2 = "multi" /\ v2)
    \/ (d2 = "first" /\ v2 /\ d1 = "multi" /\ v1)
ASSUME PairwiseCovered ==
    \A i, j \in DOMAIN Dims : i < j =>
        \A vi \in DOMAIN Vals(Dims[i]), vj \in DOMAIN Vals(Dims[j]) :
            LET d1 == Dims[i] d2 == Dims[j] v1 == Vals(d1)[vi] v2 == Vals(d2)[vj]
            IN Conflict(d1, v1, d2, v2) \/ \E x \in Cases : x[d1] = v1 /\ x[d2] = v2

ASSUME IF "CASES" \in DOMAIN IOEnv
       THEN ndJsonSerialize(IOEnv.CASES, SetToSeq({[o |-> x] : x \in Cases}))
       ELSE TRUE
=============================================================================
