SPECIFICATION Spec
CONSTANTS
  P = 29
  Strength = 3
INVARIANTS CaseInstallable SpecCoherent
CHECK_DEADLOCK FALSE
