SPECIFICATION Spec
CONSTANTS
  P = 31
  Strength = 3
INVARIANTS CaseInstallable SpecCoherent
CHECK_DEADLOCK FALSE
