SPECIFICATION Spec
CONSTANTS
  StrictPid = TRUE
  NumberByMax = TRUE
  MaxSvc = 2
  MaxOps = 5
  MaxFaults = 2
  ReqPorts = {12001}
  Kinds = {"node"}
  MaxCalls = 12
  WideView = FALSE
  EnvActions = TRUE
  Offsets2 = {}
VIEW View
INVARIANTS TypeOK Emit
CHECK_DEADLOCK FALSE
