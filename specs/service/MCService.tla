----------------------------- MODULE MCService -----------------------------
(***************************************************************************)
(* Bounded-exhaustive exploration for C19: every sequence of at most       *)
(* MaxOps operations over at most MaxSvc services, every placement of at   *)
(* most MaxFaults failing calls among the ServiceControl/RpcActions calls  *)
(* of those operations.  The clauses are evaluated on every transition;    *)
(* the set of clause names falsified so far (`bad`) is part of the state,  *)
(* so a reachable falsification is a reachable state and comes with a      *)
(* witness history.  Every distinct state is emitted with the history that *)
(* reached it (operation sequence, fault placement as indices into the     *)
(* scenario's global call sequence, expected projected state): these are   *)
(* the scenarios the driver replays into the real code.                    *)
(***************************************************************************)
EXTENDS Service, TLC, Json

CONSTANTS MaxSvc, MaxOps, MaxFaults, ReqPorts, Kinds, MaxCalls,
          WideView,  \* TRUE: states reached by different last operations are kept apart (more scenarios)
          EnvActions,\* TRUE: the environment may kill / respawn the process of a service between operations [C19-1]
          Offsets2   \* [C19-2] a second port option of another kind in the same Add: its range starts at
                     \* port + off, off \in Offsets2 (off < cnt: the two ranges overlap ACROSS kinds); {} = none

VARIABLES reg, os, budget, steps, bad,    \* the state proper (the VIEW)
          hist, lastx, calls              \* history: how this state was first reached
vars == <<reg, os, budget, steps, bad, hist, lastx, calls>>
View == IF WideView /\ hist # <<>> THEN <<reg, os, budget, steps, bad, hist[Len(hist)]>>
        ELSE <<reg, os, budget, steps, bad>>

None2 == [port2 |-> 0, kind2 |-> ""]
Ops(r, o_s) ==
         {[op |-> "Add", svc |-> 0, cnt |-> n, port |-> p, kind |-> kd, start |-> FALSE, port2 |-> 0, kind2 |-> ""] :
              n \in {m \in 1..2 : Len(r) + m <= MaxSvc}, p \in ReqPorts, kd \in Kinds}
    \cup {x \in {[op |-> "Add", svc |-> 0, cnt |-> n, port |-> p, kind |-> kd, start |-> FALSE, port2 |-> p + off, kind2 |-> k2] :
                      n \in {m \in 1..2 : Len(r) + m <= MaxSvc}, p \in ReqPorts, kd \in Kinds, k2 \in Kinds, off \in Offsets2} :
              x.kind2 # x.kind}
    \cup {[op |-> "Add", svc |-> 0, cnt |-> n, port |-> 0, kind |-> "node", start |-> FALSE, port2 |-> 0, kind2 |-> ""] :
              n \in {m \in 1..2 : Len(r) + m <= MaxSvc}}
    \cup {[op |-> o, svc |-> i, cnt |-> 0, port |-> 0, kind |-> "", start |-> FALSE, port2 |-> 0, kind2 |-> ""] :
              o \in {"Start", "Stop", "Remove"}, i \in DOMAIN r}
    \cup {[op |-> "Upgrade", svc |-> i, cnt |-> 0, port |-> 0, kind |-> "", start |-> sf, port2 |-> 0, kind2 |-> ""] :
              i \in DOMAIN r, sf \in BOOLEAN}
    \cup (IF ~EnvActions THEN {} ELSE
             {[op |-> "Kill", svc |-> i, cnt |-> 0, port |-> 0, kind |-> "", start |-> FALSE, port2 |-> 0, kind2 |-> ""] :
                  i \in {j \in DOMAIN r : Live(o_s, r[j].dir)}}
        \cup {[op |-> "Respawn", svc |-> i, cnt |-> 0, port |-> 0, kind |-> "", start |-> FALSE, port2 |-> 0, kind2 |-> ""] :
                  i \in {j \in DOMAIN r : CanRespawn(r, o_s, j)}})

FaultSets(b) == {F \in SUBSET (1..MaxCalls) : Cardinality(F) <= b}

Expected(r) ==
    [reg |-> [i \in DOMAIN r.reg |-> [st |-> r.reg[i].st, pid |-> r.reg[i].pid, name |-> r.reg[i].name,
                                      dir |-> r.reg[i].dir, ports |-> SetToSeq(r.reg[i].ports), ver |-> r.reg[i].ver]],
     os  |-> [inst |-> SetToSeq(r.os.inst), procs |-> SetToSeq(r.os.procs), dirs |-> SetToSeq(r.os.dirs)]]

Init == /\ reg = <<>> /\ os = EmptyOs /\ budget = MaxFaults /\ steps = 0 /\ bad = {}
        /\ hist = <<>> /\ lastx = [ncalls |-> 0] /\ calls = 0

Step(o, F) ==
    LET r == Exec(o, [reg |-> reg, os |-> os, k |-> 0, F |-> F, res |-> "run"])
        e == [op |-> o.op, svc |-> o.svc, res |-> r.res, req |-> ReqSet(o.cnt, o.port) \cup ReqSet(o.cnt, o.port2),
              reload_eq |-> TRUE,
              refreshed |-> Refreshed(o, [reg |-> reg, os |-> os, k |-> 0, F |-> F, res |-> "run"])]
        fals == C19_Falsified(Proj(reg, os), e, Proj(r.reg, r.os))
    IN /\ \A f \in F : f <= r.k            \* every scripted fault is reached by this operation
       /\ r.k <= MaxCalls
       /\ reg' = r.reg /\ os' = r.os
       /\ budget' = budget - Cardinality(F)
       /\ steps' = steps + 1
       /\ bad' = bad \cup fals
       /\ calls' = calls + r.k
       /\ hist' = Append(hist, [op |-> o.op, svc |-> o.svc, cnt |-> o.cnt, port |-> o.port, kind |-> o.kind,
                                start |-> o.start, port2 |-> o.port2, kind2 |-> o.kind2,
                                faults |-> SetToSeq({calls + f : f \in F})])
       /\ lastx' = [ncalls |-> r.k, res |-> r.res, mv |-> SetToSeq(fals), exp |-> Expected(r)]

Next == /\ steps < MaxOps
        /\ \E o \in Ops(reg, os), F \in FaultSets(budget) : Step(o, F)
Spec == Init /\ [][Next]_vars

TypeOK == /\ \A i \in DOMAIN reg : reg[i].st \in Statuses
          /\ budget \in 0..MaxFaults
          /\ steps \in 0..MaxOps

\* one line per distinct state: the history that reached it (always TRUE)
Emit == steps = 0 \/ PrintT(<<"SCN", ToJson([h |-> hist, x |-> lastx])>>)

\* used by the negative configurations only: the model itself must not falsify a clause
NoClauseFalsified == bad = {}
=============================================================================
