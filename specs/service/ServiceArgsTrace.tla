-------------------------- MODULE ServiceArgsTrace --------------------------
(***************************************************************************)
(* Trace specification for C20: every line is one option combination run   *)
(* through the REAL install path (add_node) and the REAL upgrade path       *)
(* (ServiceManager::upgrade -> build_upgrade_install_context) with both     *)
(* captured service definitions, and the interpretation dumped by the      *)
(* antnode binary (hook H7) for both argument lists.  Deterministic; the    *)
(* clause operators of ServiceArgs.tla are the oracle.                     *)
(***************************************************************************)
EXTENDS ServiceArgs, TLC, Json, IOUtils

Rec == ndJsonDeserialize(IOEnv.TRACE)
N == Len(Rec)

VARIABLES l, viol
vars == <<l, viol>>

When(cond, name) == IF cond THEN {name} ELSE {}
Falsified(e) ==
    IF e.ev # "Case" THEN {"Malformed"} ELSE
    \* no fault is injected in these runs: a start that does not succeed is a defect of the simulated OS
    IF e.o.started /\ e.add_res = "Ok" /\ e.start_res # "Ok" THEN {"Malformed"} ELSE
         When(~C20_UpgradeKeeps(e) /\ ~KF_C20_1(e), "C20_UpgradeKeeps")
    \cup When(~C20_UpgradeKeeps(e) /\ KF_C20_1(e),  "KF:C20-environment-is-registry-wide")
    \cup When(~C20_AcceptedByNode(e), "C20_AcceptedByNode")
    \cup When(~C20_InstallAsAsked(e), "Drift_InstallAsAsked")
    \cup When(~SpecArgsAgree(e),      "Drift_SpecArgs")

Init == l = 1 /\ viol = {}
Next == /\ l <= N
        /\ viol' = viol \cup {[clause |-> x, line |-> l] : x \in Falsified(Rec[l])}
        /\ l' = l + 1
Spec == Init /\ [][Next]_vars

Report == l = N + 1 =>
          ndJsonSerialize(IOEnv.OUT, << [lines |-> N, violations |-> SetToSeq(viol)] >>)
=============================================================================
