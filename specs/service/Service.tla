------------------------------ MODULE Service ------------------------------
(***************************************************************************)
(* C19 -- node service lifecycle (antctl / ant-node-manager).              *)
(*                                                                         *)
(* Abstract state                                                          *)
(*   reg  : the node registry, a sequence of service records               *)
(*          [st, pid, name, dir, ports, ver, um]  (st in Added/Running/    *)
(*          Stopped/Removed; pid = 0 when none recorded; name/dir = the N  *)
(*          of "antnodeN"; ports = recorded ports a user could request;    *)
(*          ver = 1 installed version, 2 upgraded)                         *)
(*   os   : the operating system as the manager sees it through            *)
(*          ServiceControl / RpcActions: installed service definitions     *)
(*          (inst), live processes [n, pid] (procs; n = the service        *)
(*          directory the binary runs from), data directories (dirs),      *)
(*          pid allocator                                                  *)
(*                                                                         *)
(* Every manager operation is the SEQUENCE of ServiceControl / RpcActions  *)
(* calls the code makes (ant-node-manager/src/lib.rs, add_services/mod.rs, *)
(* ant-service-management/src/node.rs); the k-th call of an operation      *)
(* fails -- with an error and no effect -- when k is in the fault set F of *)
(* that operation (interpretation I6).  An operation is what the `antctl`  *)
(* command does for one service: partial registry refresh                  *)
(* (refresh_node_registry), then ServiceManager::{start,stop,remove,       *)
(* upgrade}; `add` is add_node.                                            *)
(*                                                                         *)
(* The property clauses (C19_...) are written from the statement and are   *)
(* evaluated both on the model (MCService) and on traces of the real code  *)
(* (ServiceTrace).                                                         *)
(***************************************************************************)
EXTENDS Naturals, Sequences, FiniteSets, SequencesExt, Functions

CONSTANTS StrictPid,    \* TRUE: a failing process lookup is an error (not "process absent")
          NumberByMax   \* TRUE: a new service is numbered after the highest recorded number

Statuses == {"Added", "Running", "Stopped", "Removed"}

-----------------------------------------------------------------------------
(* Property clauses.  P, Q are projections [reg, procs, inst] before /      *)
(* after an operation, e the operation event [op, svc, res, req, reload_eq, *)
(* refreshed].  inst = installed service definitions [n, um] (um = the      *)
(* user_mode argument they were installed with); reg[i].um = the recorded   *)
(* mode of the service.                                                     *)
(*                                                                         *)
(* Environment events (e.op in EnvOps: the process of a service dies, or is *)
(* (re)spawned by the OS with a new pid) are not manager operations: no     *)
(* clause is judged on them, they only change the "before" state of the     *)
(* next operation.  e.refreshed: the operation read the process table for   *)
(* EVERY service before acting (every antctl command except `add` starts    *)
(* with refresh_node_registry; FALSE when that refresh was cut short by a   *)
(* failing call).                                                           *)
EnvOps == {"Kill", "Respawn"}

LiveAs(Q, i) == \E p \in Q.procs : p.n = Q.reg[i].dir /\ p.pid = Q.reg[i].pid
HasProc(Q, i) == \E p \in Q.procs : p.n = Q.reg[i].dir

\* a service recorded as running has a live process with the recorded PID -- after every operation.  The only
\* excuse: the record was ALREADY stale before the operation (the environment killed / respawned the process, or an
\* earlier operation was already reported for it) and the operation never looked at the process table (`add`, or a
\* refresh cut short).  Without environment events this is the unconditional clause: every stale record is reported
\* on the operation that produced it.
StaleBefore(P, Q, i) == /\ i \in DOMAIN P.reg /\ P.reg[i].st = "Running" /\ P.reg[i].pid = Q.reg[i].pid
                        /\ ~(\E p \in P.procs : p.n = P.reg[i].dir /\ p.pid = P.reg[i].pid)
C19_RunningIsLive(P, e, Q) ==
    \A i \in DOMAIN Q.reg : Q.reg[i].st = "Running" => (LiveAs(Q, i) \/ (~e.refreshed /\ StaleBefore(P, Q, i)))

\* a successful stop or removal leaves no process and no recorded PID
C19_StopLeavesNothing(e, Q) ==
    (e.op \in {"Stop", "Remove"} /\ e.res = "Ok" /\ e.svc \in DOMAIN Q.reg)
        => (Q.reg[e.svc].pid = 0 /\ ~HasProc(Q, e.svc))

\* a removed service stays removed (and registry entries do not vanish)
C19_RemovedStays(P, Q) ==
    /\ Len(Q.reg) >= Len(P.reg)
    /\ \A i \in DOMAIN P.reg : P.reg[i].st = "Removed" => Q.reg[i].st = "Removed"

\* a failed operation never newly records a service as running when it is not
C19_NoFalseRunning(P, e, Q) ==
    e.res # "Ok" =>
        \A i \in DOMAIN Q.reg :
            (Q.reg[i].st = "Running" /\ (i \notin DOMAIN P.reg \/ P.reg[i].st # "Running")) => LiveAs(Q, i)

\* an added service never receives a name / data directory recorded for another service
NewOnes(P, Q) == {i \in DOMAIN Q.reg : i > Len(P.reg)}
C19_UniqueNames(P, e, Q) ==
    e.op = "Add" => \A i \in NewOnes(P, Q) : \A j \in DOMAIN Q.reg : j # i => Q.reg[j].name # Q.reg[i].name
C19_UniqueDirs(P, e, Q) ==
    e.op = "Add" => \A i \in NewOnes(P, Q) : \A j \in DOMAIN Q.reg : j # i => Q.reg[j].dir # Q.reg[i].dir

\* a requested port that another service already records is refused
C19_PortRefused(P, e, Q) ==
    (e.op = "Add" /\ \E i \in DOMAIN P.reg : P.reg[i].st # "Removed" /\ e.req \cap P.reg[i].ports # {})
        => (e.res # "Ok" /\ Len(Q.reg) = Len(P.reg))

\* [C19-2] no two services that are not removed record the same port ("a requested port that another service already
\* records is refused" -- also when the other service is an earlier one of the SAME `add --count n`, and whatever the
\* kind of port (node / metrics / rpc) on either side)
C19_NoSharedPort(Q) ==
    \A i, j \in DOMAIN Q.reg : (i < j /\ Q.reg[i].st # "Removed" /\ Q.reg[j].st # "Removed")
                                    => Q.reg[i].ports \cap Q.reg[j].ports = {}

\* [C20-4] the recorded status is consistent with the installed definitions: a successfully removed service has no
\* definition left, a successfully added one has a definition installed in the service's recorded mode
C19_InstalledAsRecorded(P, e, Q) ==
    /\ (e.op = "Remove" /\ e.res = "Ok" /\ e.svc \in DOMAIN Q.reg) => ~\E x \in Q.inst : x.n = Q.reg[e.svc].name
    /\ (e.op = "Add" /\ e.res = "Ok") => \A i \in NewOnes(P, Q) : [n |-> Q.reg[i].name, um |-> Q.reg[i].um] \in Q.inst

\* the registry saved after the step loads back to the same state
C19_SaveLoad(e) == e.reload_eq

When(cond, name) == IF cond THEN {name} ELSE {}
C19_Falsified(P, e, Q) ==
    IF e.op \in EnvOps THEN {} ELSE
         When(~C19_RunningIsLive(P, e, Q),    "C19_RunningIsLive")
    \cup When(~C19_StopLeavesNothing(e, Q),   "C19_StopLeavesNothing")
    \cup When(~C19_RemovedStays(P, Q),        "C19_RemovedStays")
    \cup When(~C19_NoFalseRunning(P, e, Q),   "C19_NoFalseRunning")
    \cup When(~C19_UniqueNames(P, e, Q),      "C19_UniqueNames")
    \cup When(~C19_UniqueDirs(P, e, Q),       "C19_UniqueDirs")
    \cup When(~C19_PortRefused(P, e, Q),      "C19_PortRefused")
    \cup When(~C19_NoSharedPort(Q),           "C19_NoSharedPort")
    \cup When(~C19_InstalledAsRecorded(P, e, Q), "C19_InstalledAsRecorded")
    \cup When(~C19_SaveLoad(e),               "C19_SaveLoad")

-----------------------------------------------------------------------------
(* The implementation-shaped model: call sequences of the operations.       *)
(* A context c = [reg, os, k, F, res]: k calls made so far in this          *)
(* operation, F the (relative) indices of the calls that fail, res = "run"  *)
(* while the operation is still executing.                                  *)

EmptyOs == [inst |-> {}, procs |-> {}, dirs |-> {}, nextPid |-> 1]

Fl(c)   == (c.k + 1) \in c.F                      \* the next call fails
Call(c) == [c EXCEPT !.k = @ + 1]
Done(c, r) == [c EXCEPT !.res = r]
Live(os, n)  == \E p \in os.procs : p.n = n
PidOf(os, n) == (CHOOSE p \in os.procs : p.n = n).pid
MinOf(S) == CHOOSE x \in S : \A y \in S : x <= y
MaxOf(S) == IF S = {} THEN 0 ELSE CHOOSE x \in S : \A y \in S : x >= y

\* n consecutive calls that have no effect on the OS; stops at the first failing one
Calls(c, n) == LET fs == {j \in 1..n : (c.k + j) \in c.F}
               IN IF fs = {} THEN [c EXCEPT !.k = @ + n]
                  ELSE [c EXCEPT !.k = @ + MinOf(fs), !.res = "Err"]

OnStop(c, i) == [c EXCEPT !.reg[i].pid = 0, !.reg[i].st = "Stopped"]

\* ---- refresh_node_registry(full_refresh = false, is_local_network = false)
RefreshOne(c, i) ==
    IF c.res # "run" THEN c ELSE
    LET d  == c.reg[i]
        c1 == Call(c)                                     \* get_process_pid(bin_path)
        absent == IF d.st \in {"Added", "Removed"} THEN c1 ELSE OnStop(c1, i)
    IN IF Fl(c) THEN (IF StrictPid THEN Done(c1, "Err") ELSE absent)
       ELSE IF Live(c.os, d.dir)
            THEN [c1 EXCEPT !.reg[i].pid = PidOf(c.os, d.dir), !.reg[i].st = "Running"]   \* on_start(pid, false)
            ELSE absent
Refresh(c) == FoldLeft(RefreshOne, c, [j \in 1..Len(c.reg) |-> j])

\* ---- ServiceManager::start
StartSvc(c, i) ==
    LET d == c.reg[i]
        \* status Running: "is it really running?"  (get_process_pid(..).is_ok())
        s1 == IF d.st = "Running"
              THEN (IF ~Fl(c) /\ Live(c.os, d.dir) THEN Done(Call(c), "Ok") ELSE Call(c))
              ELSE c
    IN IF s1.res # "run" THEN s1 ELSE
    LET c2 == Call(s1)                                    \* service_control.start(name)
    IN IF Fl(s1) \/ d.name \notin s1.os.inst THEN Done(c2, "Err") ELSE
    LET c3 == IF Live(c2.os, d.dir) \/ d.dir \notin c2.os.dirs THEN c2
              ELSE [c2 EXCEPT !.os.procs = @ \cup {[n |-> d.dir, pid |-> c2.os.nextPid]},
                              !.os.nextPid = @ + 1]
        c4 == Call(c3)                                    \* get_process_pid(bin_path)
    IN IF Fl(c3) \/ ~Live(c3.os, d.dir) THEN Done(c4, "Err") ELSE
    LET pid == PidOf(c4.os, d.dir)
        c5  == Calls(c4, 3)          \* on_start(pid, true): is_node_connected_to_network, node_info, network_info
    IN IF c5.res # "run" THEN c5
       ELSE Done([c5 EXCEPT !.reg[i].pid = pid, !.reg[i].st = "Running"], "Ok")

\* ---- ServiceManager::stop
StopSvc(c, i) ==
    LET d == c.reg[i] IN
    IF d.st # "Running" THEN Done(c, "Ok") ELSE
    IF d.pid = 0 THEN Done(c, "Err") ELSE                 \* Error::PidNotSet
    LET c1 == Call(c)                                     \* get_process_pid(bin_path)
    IN IF Fl(c) THEN (IF StrictPid THEN Done(c1, "Err") ELSE Done(OnStop(c1, i), "Ok"))
       ELSE IF ~Live(c.os, d.dir) THEN Done(OnStop(c1, i), "Ok")
       ELSE LET c2 == Call(c1)                            \* service_control.stop(name)
            IN IF Fl(c1) \/ d.name \notin c1.os.inst THEN Done(c2, "Err")
               ELSE Done(OnStop([c2 EXCEPT !.os.procs = {p \in @ : p.n # d.dir}], i), "Ok")

\* ---- ServiceManager::remove(keep_directories = false)
RemoveSvc(c, i) ==
    LET d == c.reg[i] IN
    IF d.st = "Running"
    THEN LET c1 == Call(c)                                \* get_process_pid(bin_path)
         IN IF Fl(c) THEN (IF StrictPid THEN Done(c1, "Err") ELSE Done(OnStop(c1, i), "Err"))
            ELSE IF Live(c.os, d.dir) THEN Done(c1, "Err")            \* ServiceAlreadyRunning
            ELSE Done(OnStop(c1, i), "Err")                           \* ServiceStatusMismatch
    ELSE LET c1 == Call(c)                                \* service_control.uninstall(name)
         IN IF Fl(c) THEN Done(c1, "Err")
            ELSE Done([c1 EXCEPT !.os.inst = @ \ {d.name},            \* "removed manually" is tolerated
                                 !.os.dirs = @ \ {d.dir},
                                 !.reg[i].st = "Removed"], "Ok")

\* ---- ServiceManager::upgrade(force = false, target version 2, start_service = sf)
UpgradeSvc(c, i, sf) ==
    LET d == c.reg[i] IN
    IF d.ver = 2 THEN Done(c, "Ok") ELSE                  \* UpgradeResult::NotRequired
    LET s == StopSvc(c, i) IN
    IF s.res # "Ok" THEN s ELSE
    IF d.dir \notin s.os.dirs THEN Done(s, "Err") ELSE    \* fs::copy of the new binary fails
    LET c1 == [s EXCEPT !.res = "run"]
        c2 == Call(c1)                                    \* service_control.uninstall(name)
    IN IF Fl(c1) \/ d.name \notin c1.os.inst THEN Done(c2, "Err") ELSE
    LET c3 == [c2 EXCEPT !.os.inst = @ \ {d.name}]
        c4 == Call(c3)                                    \* service_control.install(ctx)
    IN IF Fl(c3) THEN Done(c4, "Err") ELSE
    LET c5 == [c4 EXCEPT !.os.inst = @ \cup {d.name}]
        c6 == IF sf THEN StartSvc(c5, i) ELSE c5          \* a failing start: UpgradedButNotStarted (Ok)
    IN Done([c6 EXCEPT !.reg[i].ver = 2], "Ok")

\* ---- add_node(count = cnt, requested port range starting at port (0 = none) for `kind`, and -- [C19-2] -- a second
\*      requested range starting at port2 (0 = none) for another kind kind2).  Each range is checked against the ports the
\*      registry records (check_port_availability) and -- since fix 65feffc in /repo -- against each other: two kinds
\*      asking for an overlapping range would make two services of the batch record the same port.
ReqSet(cnt, port) == IF port = 0 THEN {} ELSE port .. (port + cnt - 1)
AddSvc(c, cnt, port, kind, port2, kind2) ==
    LET recorded == UNION {c.reg[j].ports : j \in DOMAIN c.reg}       \* check_port_availability
        base == IF NumberByMax THEN MaxOf({c.reg[j].name : j \in DOMAIN c.reg}) ELSE Len(c.reg)
        \* rpc port not requested: get_available_port()
        needPort == ~((port # 0 /\ kind = "rpc") \/ (port2 # 0 /\ kind2 = "rpc"))
        One(a, b) ==
            IF a.res # "run" THEN a ELSE
            LET num == base + b
                a1  == IF needPort THEN Call(a) ELSE a
            IN IF needPort /\ Fl(a) THEN Done(a1, "Err") ELSE         \* `?`: the whole batch is abandoned
               LET a2 == [a1 EXCEPT !.os.dirs = @ \cup {num}]          \* create dirs, copy binary
                   a3 == Call(a2)                                      \* service_control.install(ctx)
               IN IF Fl(a2) THEN [a3 EXCEPT !.failed = TRUE]           \* recorded as failed, batch goes on
                  ELSE [a3 EXCEPT !.os.inst = @ \cup {num},
                                  !.reg = Append(@, [st |-> "Added", pid |-> 0, name |-> num, dir |-> num,
                                                     ports |-> (IF port = 0 THEN {} ELSE {port + b - 1})
                                                               \cup (IF port2 = 0 THEN {} ELSE {port2 + b - 1}),
                                                     ver |-> 1, um |-> FALSE])]
    IN IF (ReqSet(cnt, port) \cup ReqSet(cnt, port2)) \cap recorded # {} THEN Done(c, "Err") ELSE
       IF ReqSet(cnt, port) \cap ReqSet(cnt, port2) # {} THEN Done(c, "Err") ELSE
       LET r == FoldLeft(One, [reg |-> c.reg, os |-> c.os, k |-> c.k, F |-> c.F, res |-> c.res, failed |-> FALSE],
                         [j \in 1..cnt |-> j])
           out == [reg |-> r.reg, os |-> r.os, k |-> r.k, F |-> r.F, res |-> r.res]
       IN IF r.res # "run" THEN out
          ELSE Done(out, IF r.failed THEN "Err" ELSE "Ok")

\* ---- [C19-1] environment: the process of service i dies / the OS (re)spawns it with a new pid.  No manager call.
KillProc(c, i) == Done([c EXCEPT !.os.procs = {p \in @ : p.n # c.reg[i].dir}], "Ok")
CanRespawn(reg, os, i) == reg[i].name \in os.inst /\ reg[i].dir \in os.dirs
RespawnProc(c, i) ==
    IF ~CanRespawn(c.reg, c.os, i) THEN Done(c, "Ok")
    ELSE Done([c EXCEPT !.os.procs = {p \in @ : p.n # c.reg[i].dir} \cup {[n |-> c.reg[i].dir, pid |-> c.os.nextPid]},
                        !.os.nextPid = @ + 1], "Ok")

\* ---- one antctl operation
Exec(o, c) ==
    IF o.op = "Add" THEN AddSvc(c, o.cnt, o.port, o.kind, o.port2, o.kind2) ELSE
    IF o.op = "Kill" THEN KillProc(c, o.svc) ELSE
    IF o.op = "Respawn" THEN RespawnProc(c, o.svc) ELSE
    LET r == Refresh(c) IN
    IF r.res # "run" THEN r ELSE
    CASE o.op = "Start"   -> StartSvc(r, o.svc)
      [] o.op = "Stop"    -> StopSvc(r, o.svc)
      [] o.op = "Remove"  -> RemoveSvc(r, o.svc)
      [] o.op = "Upgrade" -> UpgradeSvc(r, o.svc, o.start)

\* did the operation read the process table for every service before acting
Refreshed(o, c) == o.op \notin ({"Add"} \cup EnvOps) /\ Refresh(c).res = "run"

Proj(reg, os) == [reg |-> reg, procs |-> os.procs, inst |-> {[n |-> x, um |-> FALSE] : x \in os.inst}]
=============================================================================
