SPECIFICATION Spec
CONSTANTS
  StrictPid = TRUE
  NumberByMax = TRUE
  MaxSvc = 3
  MaxOps = 3
  MaxFaults = 0
  ReqPorts = {12001, 12002, 12003}
  Kinds = {"node", "rpc", "metrics"}
  MaxCalls = 12
  WideView = FALSE
  EnvActions = FALSE
  Offsets2 = {1, 2}
VIEW View
INVARIANTS TypeOK Emit
CHECK_DEADLOCK FALSE
