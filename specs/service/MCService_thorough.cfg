SPECIFICATION Spec
CONSTANTS
  StrictPid = TRUE
  NumberByMax = TRUE
  MaxSvc = 2
  MaxOps = 6
  MaxFaults = 2
  ReqPorts = {12001}
  Kinds = {"node", "rpc", "metrics"}
  MaxCalls = 12
  WideView = FALSE
  EnvActions = FALSE
  Offsets2 = {}
VIEW View
INVARIANTS TypeOK Emit
CHECK_DEADLOCK FALSE
