---------------------------- MODULE ServiceTrace ----------------------------
(***************************************************************************)
(* Trace specification for C19.  Every line of the trace is either the     *)
(* start of a run ("Reset": fresh registry, fresh simulated OS) or one      *)
(* operation of the REAL node manager code with its result, the projected  *)
(* registry, the projected simulated OS and the outcome of reloading the   *)
(* saved registry.  The clause operators of Service.tla are evaluated on   *)
(* each (state before, operation, state after) triple.  Deterministic: one *)
(* line per step; falsified clauses are accumulated and reported.          *)
(***************************************************************************)
EXTENDS Service, TLC, Json, IOUtils

Rec == ndJsonDeserialize(IOEnv.TRACE)
N == Len(Rec)

VARIABLES l, prev, viol
vars == <<l, prev, viol>>

Empty == [reg |-> <<>>, procs |-> {}, inst |-> {}]
Norm(e) == [reg   |-> [i \in DOMAIN e.reg |-> [st |-> e.reg[i].st, pid |-> e.reg[i].pid, name |-> e.reg[i].name,
                                               dir |-> e.reg[i].dir, ports |-> ToSet(e.reg[i].ports), um |-> e.reg[i].um]],
            procs |-> ToSet(e.os.procs),
            inst  |-> ToSet(e.os.insts)]
Event(e) == [op |-> e.op, svc |-> e.svc, res |-> e.res, req |-> ToSet(e.req), reload_eq |-> e.reload_eq,
             refreshed |-> e.refreshed]

Known(e) == \/ e.ev = "Reset"
            \/ /\ e.ev = "Op"
               /\ e.op \in {"Add", "Start", "Stop", "Remove", "Upgrade"} \cup EnvOps
               /\ e.res \in {"Ok", "Err", "Panic"}
               /\ \A i \in DOMAIN e.reg : e.reg[i].st \in Statuses

Falsified(e, P) == IF ~Known(e) THEN {"Malformed"}
                   ELSE IF e.ev = "Reset" THEN {}
                   ELSE C19_Falsified(P, Event(e), Norm(e))

Init == l = 1 /\ prev = Empty /\ viol = {}
Next == /\ l <= N
        /\ LET e == Rec[l] IN
           /\ viol' = viol \cup {[clause |-> c, line |-> l] : c \in Falsified(e, prev)}
           /\ prev' = IF Known(e) /\ e.ev = "Op" THEN Norm(e) ELSE Empty
        /\ l' = l + 1
Spec == Init /\ [][Next]_vars

Report == l = N + 1 =>
          ndJsonSerialize(IOEnv.OUT, << [lines |-> N, violations |-> SetToSeq(viol)] >>)
=============================================================================
