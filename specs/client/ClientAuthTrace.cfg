SPECIFICATION Spec
CONSTANTS
  ChecksAddr = TRUE
  ChecksPad = TRUE
  WithEncoding = FALSE
INVARIANT Report
CHECK_DEADLOCK FALSE
