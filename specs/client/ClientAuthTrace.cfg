SPECIFICATION Spec
CONSTANTS
  ChecksAddr = TRUE
  ChecksPad = TRUE
INVARIANT Report
CHECK_DEADLOCK FALSE
