\* thorough, exhaustive with recorded schedules: as MCClientData.cfg plus 6 chunks = two levels (6,3)
SPECIFICATION Spec
CONSTANTS
  M = 10
  Info = 2
  Blk = 2
  MinLen = 3
  MaxL = 4
  ReaderUnwraps = TRUE
  SortsByIndex = TRUE
  Lens = {0, 2, 3, 4, 29, 30, 31, 40, 41, 51}
  Batches = {0, 1, 2, 3}
  Record = TRUE
  KnownMask = {"C14-cipher-padding-exceeds-max"}
INVARIANTS NoClauseFalsified WindowBounded TypeOK Emit
CHECK_DEADLOCK FALSE
