SPECIFICATION Spec
CONSTANTS
  ChecksAddr = TRUE
  ChecksPad = TRUE
  WithEncoding = FALSE
  MaxReplies = 4
INVARIANTS NoClauseFalsified
CHECK_DEADLOCK FALSE
