SPECIFICATION Spec
CONSTANTS
  ChecksAddr = TRUE
  ChecksPad = TRUE
  MaxReplies = 4
INVARIANTS NoClauseFalsified
CHECK_DEADLOCK FALSE
