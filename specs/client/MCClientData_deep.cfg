\* quick, exhaustive without history: 3 entries per data-map chunk, so 4..9 chunks give 2 levels and 10..12 give 3
SPECIFICATION Spec
CONSTANTS
  M = 6
  Info = 2
  Blk = 2
  MinLen = 3
  MaxL = 5
  ReaderUnwraps = TRUE
  SortsByIndex = TRUE
  Lens = {2, 3, 17, 18, 19, 24, 25, 55, 60, 61}
  Batches = {0, 1, 2}
  Record = FALSE
  KnownMask = {"C14-cipher-padding-exceeds-max"}
INVARIANTS NoClauseFalsified WindowBounded TypeOK
CHECK_DEADLOCK FALSE
