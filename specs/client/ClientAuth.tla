----------------------------- MODULE ClientAuth -----------------------------
(***************************************************************************)
(* Authentication of client reads (property C15).                          *)
(*                                                                         *)
(* Implementation-shaped model of                                          *)
(*   ant-networking/src/event/kad.rs    accumulate_get_record_found,       *)
(*                                      handle_get_record_finished         *)
(*   ant-networking/src/lib.rs          get_record_from_network,           *)
(*                                      handle_split_record_error          *)
(*   autonomi/src/client/data/public.rs chunk_get, data_get_public         *)
(*   autonomi/src/client/vault.rs       get_vault_from_network,            *)
(*                                      fetch_and_decrypt_vault            *)
(*                                                                         *)
(* Holders (honest, faulty or adversarial) answer a read with records of   *)
(* the reply kinds below, in any arrival order.  The network layer groups  *)
(* them by content into versions and delivers Ok(version) when a version   *)
(* reaches the quorum while it is the only one seen, SplitRecord(versions) *)
(* otherwise, NotEnoughCopies / RecordNotFound when the query ends early.  *)
(* The client turns the delivered outcome into its result.                 *)
(*                                                                         *)
(* The clause operators C15_* are written from the statement of C15 over   *)
(* observation records; MCClientAuth evaluates them on the model, and      *)
(* ClientTrace on the calls recorded from the real client.                 *)
(***************************************************************************)
EXTENDS Naturals, Sequences, FiniteSets, SequencesExt

CONSTANTS ChecksAddr,   \* chunk_get compares the address of the chunk it received with the requested one
          ChecksPad,    \* the vault read keeps only pads owned by the requested key and validly signed
          WithEncoding  \* the reply kind "encoding" (holder-changed content type) takes part (VERIF_ENABLE_ENCODING)

\* ----------------------------------------------------------------- reply kinds
\* replies to a chunk read of address A (content X):
\*   authentic     key A, chunk X              wrongcontent  key A, a valid chunk of other bytes Y
\*   wrongkey      key hash(Y), chunk Y        wrongkind     key A, a register-kind record
\*   padkind       key A, a scratchpad record  paidkind      key A, chunk X under the with-payment kind
\*   paidsubst     key A, a with-payment record: (proof of payment without quotes, chunk of the OTHER bytes Y)
ChunkKinds == {"authentic", "wrongcontent", "wrongkey", "wrongkind", "padkind", "paidkind", "paidsubst"}
\* address of the bytes a chunk reply carries: 1 = requested, 2 = other, 0 = not a chunk record
ChunkAddrOf(k) == CASE k = "authentic" -> 1 [] k \in {"wrongcontent", "wrongkey"} -> 2 [] OTHER -> 0
IsChunkRecord(k) == k \in {"authentic", "wrongcontent", "wrongkey"}
\* replies that carry the requested content X (whatever their header says): an authentic version IS available
CarriesRequested(k) == k \in {"authentic", "wrongkind", "paidkind"}

\* replies to a vault read of owner key P (all encrypted to P, so P can decrypt every one of them):
\*   valid1 valid2 valid3   owner P, signed by P, counter 1 / 2 / 3
\*   unsigned               owner P, no signature, counter 5
\*   badsig                 owner P, signature by another key, counter 6
\*   inflated               owner P, P's signature for counter 2 with the counter field raised to the largest value
\*                          (u64::MAX in the driver; 9 in the model, only the order matters)
\*   foreign                owner Q, validly signed by Q, counter 7, returned under P's record key
\*   wrongkey               owner Q, validly signed by Q, counter 8, under Q's own record key
\*   wrongkind              a chunk record under P's record key
\*   -- records that do not carry a bare pad under a Scratchpad header:
\*   paidforeign paidunsigned paidinflated
\*                          a well-formed (proof of payment, pad) pair under the ScratchpadWithPayment header (what a
\*                          holder keeps from the first, paid upload); the pad inside is a foreign / unsigned /
\*                          inflated one.  The pair does not parse as a bare pad.
\*   padbody-chunkhdr       owner P, no signature, counter 4: the body of a pad behind a Chunk-kind header
\*   -- tampered versions of a pad the owner did write:
\*   swapdata               owner P, counter and signature of valid3 over OTHER encrypted data (signature does not verify)
\*   encoding               valid3 with the content type (data_encoding) changed by the holder; counter, encrypted data
\*                          and signature are those of valid3 (the signature covers counter and data only)
\*   valid3b                owner P, signed by P, counter 3, OTHER data: a second authentic version with the highest counter
PadKinds == {"valid1", "valid2", "valid3", "unsigned", "badsig", "inflated", "foreign", "wrongkey", "wrongkind",
             "paidforeign", "paidunsigned", "paidinflated", "padbody-chunkhdr", "swapdata", "valid3b"}
            \cup (IF WithEncoding THEN {"encoding"} ELSE {})
\* kind announced by the record header
Header(k) == CASE k \in {"wrongkind", "padbody-chunkhdr"} -> "Chunk"
               [] k \in {"paidforeign", "paidunsigned", "paidinflated"} -> "PadPaid"
               [] OTHER -> "Pad"
\* the record body parses as a bare pad (try_deserialize_record::<Scratchpad> does not look at the header)
IsPad(k) == k \in PadKinds \ {"wrongkind", "paidforeign", "paidunsigned", "paidinflated"}
SigValid(k) == k \in {"valid1", "valid2", "valid3", "foreign", "wrongkey", "valid3b", "encoding"}     \* Scratchpad::is_valid()
OwnerOk(k) == k \in {"valid1", "valid2", "valid3", "unsigned", "badsig", "inflated", "padbody-chunkhdr", "swapdata", "valid3b", "encoding"}
Counter(k) == CASE k = "valid1" -> 1 [] k = "valid2" -> 2 [] k = "valid3" -> 3 [] k = "unsigned" -> 5
                [] k = "badsig" -> 6 [] k = "inflated" -> 9 [] k = "foreign" -> 7 [] k = "wrongkey" -> 8
                [] k \in {"swapdata", "valid3b", "encoding"} -> 3 [] k = "padbody-chunkhdr" -> 4 [] OTHER -> 0
\* a version the statement accepts: owned by the requested key and validly signed by it
AuthenticPad(k) == IsPad(k) /\ SigValid(k) /\ OwnerOk(k)
\* every field of the version is as its owner wrote it (no holder touched counter, data or content type)
OwnerWrote(k) == k \in {"valid1", "valid2", "valid3", "valid3b"}

MaxCounter(S) == CHOOSE c \in {Counter(k) : k \in S} : \A k \in S : Counter(k) <= c
Highest(S) == {k \in S : Counter(k) = MaxCounter(S)}

\* ----------------------------------------------------------------- network layer (kad.rs)
OkOut(k) == [k |-> "Ok", v |-> k, vs |-> {}]
SplitOut(S) == [k |-> "Split", v |-> "", vs |-> S]
NotEnoughOut(k) == [k |-> "NotEnough", v |-> k, vs |-> {}]
NotFoundOut == [k |-> "NotFound", v |-> "", vs |-> {}]
TimeoutOut == [k |-> "Timeout", v |-> "", vs |-> {}]

\* replies = arrival sequence of reply kinds (one per answering holder); q = quorum
Accumulate(replies, q) ==
    LET n == Len(replies)
        Copies(i) == Cardinality({j \in 1..i : replies[j] = replies[i]})
        hit == {i \in 1..n : Copies(i) >= q}
        Seen(i) == {replies[j] : j \in 1..i}
    IN IF hit # {} THEN LET i == CHOOSE x \in hit : \A y \in hit : x <= y IN
                        IF Cardinality(Seen(i)) = 1 THEN OkOut(replies[i]) ELSE SplitOut(Seen(i))
       ELSE IF n = 0 THEN NotFoundOut
       ELSE IF Cardinality(Seen(n)) = 1 THEN NotEnoughOut(replies[1])
       ELSE SplitOut(Seen(n))

\* versions the client has received with an outcome
Delivered(o) == IF o.k \in {"Ok", "NotEnough"} THEN {o.v} ELSE o.vs

\* Network::get_record_from_network / handle_split_record_error over the versions in the iteration order `ord`
\* of the result map: the header of the first record dictates the kind; records with another header are skipped;
\* for the Scratchpad kind the first pad with the highest counter among those whose signature verifies is
\* returned (the owner is NOT looked at here); any other kind resolves nothing.  "none" = the split stays.
SplitResolve(ord) ==
    IF Header(ord[1]) # "Pad" THEN "none"
    ELSE LET Step(acc, k) == IF Header(k) = "Pad" /\ IsPad(k) /\ SigValid(k) /\ (acc = "none" \/ Counter(k) > Counter(acc))
                             THEN k ELSE acc
         IN FoldLeft(Step, "none", ord)
\* order-free: what any iteration order may deliver to the client
NetLayer(o) ==
    IF o.k # "Split" \/ Cardinality(o.vs) < 2 THEN {o}
    ELSE {IF SplitResolve(p) = "none" THEN o ELSE OkOut(SplitResolve(p)) : p \in SetToSeqs(o.vs)}

\* ----------------------------------------------------------------- client
ResOk(x) == [k |-> "ok", x |-> x]
ResErr == [k |-> "err", x |-> "none"]

\* chunk_get(A): result x = address id of the returned bytes
ChunkGet(o) ==
    IF o.k # "Ok" THEN {ResErr}
    ELSE IF ~IsChunkRecord(o.v) THEN {ResErr}
    ELSE IF ChecksAddr /\ ChunkAddrOf(o.v) # 1 THEN {ResErr}
    ELSE {ResOk(ChunkAddrOf(o.v))}

\* get_vault_from_network(P): result x = the pad kind returned
VaultClient(o) ==
    IF o.k = "Ok" THEN (IF ~IsPad(o.v) THEN {ResErr}
                        ELSE IF ChecksPad /\ ~AuthenticPad(o.v) THEN {ResErr} ELSE {ResOk(o.v)})
    ELSE IF o.k = "Split" THEN
         (IF \E k \in o.vs : ~IsPad(k) THEN {ResErr}
          ELSE LET pool == IF ChecksPad THEN {k \in o.vs : AuthenticPad(k)} ELSE o.vs IN
               IF pool = {} THEN {ResErr} ELSE {ResOk(k) : k \in Highest(pool)})
    ELSE {ResErr}
VaultGet(o) == UNION {VaultClient(d) : d \in NetLayer(o)}
\* the same with the iteration order of the split known (ord = the versions in map order; the same map instance is
\* walked by the network layer and then by the client): the split branch sorts by counter (stable) and takes the
\* first of the highest ones
VaultClientOrd(ord) ==
    IF \E i \in 1..Len(ord) : ~IsPad(ord[i]) THEN ResErr
    ELSE LET pool == IF ChecksPad THEN SelectSeq(ord, AuthenticPad) ELSE ord IN
         IF pool = <<>> THEN ResErr
         ELSE LET m == MaxCounter(ToSet(pool)) IN ResOk(SelectSeq(pool, LAMBDA k : Counter(k) = m)[1])
VaultGetOrd(o, ord) ==
    IF o.k # "Split" \/ Len(ord) < 2 \/ ToSet(ord) # o.vs THEN VaultGet(o)
    ELSE IF SplitResolve(ord) # "none" THEN VaultClient(OkOut(SplitResolve(ord)))
    ELSE {VaultClientOrd(ord)}

\* data_get_public(A) with ONE fetch of the tree (position pos) answered by a reply of `kind`, all others
\* authentic; result x = 1 the data committed to by A, 2 the other data, 0 anything else
\*   sibling / siblingkey: the content of ANOTHER chunk of the same tree (a genuine member of the data map, of the
\*   wrong position), under the requested key / under its own key
DataGet(pos, kind) ==
    IF kind = "authentic" THEN {ResOk(1)}
    ELSE IF kind \in {"wrongkind", "missing", "paidsubst"} THEN {ResErr}
    ELSE IF ChecksAddr THEN {ResErr}
    ELSE IF pos = "root" /\ kind \in {"wrongcontent", "wrongkey"} THEN {ResOk(2)}   \* the other data map is followed to the end
    ELSE {ResErr, ResOk(0)}                          \* a foreign chunk among the others: decryption fails or garbles

\* ----------------------------------------------------------------- clauses of C15 (from the statement)
\* "Data the client returns for a content address hashes to that address"
\*   c = [req, res] ; res.x = address id of the returned bytes (chunk_get) / identity of the returned data
\*   (data_get_public: 1 = the data whose data map hashes to the requested address)
C15_ChunkAuthentic(c) == c.res.k = "ok" => c.res.x = c.req
\* "A scratchpad returned to its owner is owned by the requested key, validly signed by it, and is the
\*  highest-counter validly signed version among those received; unsigned or foreign versions are discarded"
\*   c = [delivered, res] ; res.x = kind of the returned pad ("unknown" when it is none of the received ones)
C15_VaultAuthentic(c) ==
    c.res.k = "ok" => /\ c.res.x \in c.delivered
                      /\ AuthenticPad(c.res.x)
                      /\ Counter(c.res.x) = MaxCounter({k \in c.delivered : AuthenticPad(k)})
\* "... validly signed by it ... instead of returning unauthenticated data": everything the read hands to the owner
\*  (data, counter, content type) is what the owner wrote; a field a holder can change without invalidating the
\*  signature is unauthenticated data
\*   c = [res] ; res.x = kind of the returned pad, identified by decrypted data, counter AND content type
C15_VaultFieldsAuthentic(c) == c.res.k = "ok" => OwnerWrote(c.res.x)
\* "When no authentic version is available the read fails with an error instead of returning unauthenticated data"
C15_FailClosed(authenticAvailable, res) == ~authenticAvailable => res.k = "err"
=============================================================================
