\* thorough, exhaustive without history: more lengths around every boundary, 1..4 levels, batch up to 3
SPECIFICATION Spec
CONSTANTS
  M = 6
  Info = 2
  Blk = 2
  MinLen = 3
  MaxL = 6
  ReaderUnwraps = TRUE
  SortsByIndex = TRUE
  Lens = {0, 1, 2, 3, 4, 5, 6, 16, 17, 18, 19, 20, 23, 24, 25, 30, 31, 36, 42, 48, 54, 55, 59, 60, 61, 66, 72, 78, 84, 90, 96, 102}
  Batches = {0, 1, 2, 3}
  Record = FALSE
  KnownMask = {"C14-cipher-padding-exceeds-max"}
INVARIANTS NoClauseFalsified WindowBounded TypeOK
CHECK_DEADLOCK FALSE
