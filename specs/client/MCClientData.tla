--------------------------- MODULE MCClientData ---------------------------
(***************************************************************************)
(* Model-checking harness for ClientData: every input length of Lens, both *)
(* content classes, both read APIs, every batch size of Batches and every  *)
(* completion order of the chunk fetches of every level.  `bad` = clauses  *)
(* of C14 falsified (not counting listed known findings).  With Record the *)
(* completion choices are kept and printed as a replay scenario when the   *)
(* read is done.                                                           *)
(***************************************************************************)
EXTENDS ClientData, TLC, Json

CONSTANTS Lens, Batches, Record, KnownMask

VARIABLES s, enc, hist
vars == <<s, enc, hist>>

Idle == [ph |-> "idle"]

Init == s = Idle /\ enc = Idle /\ hist = <<>>

DoBegin == /\ s.ph = "idle"
           /\ \E len \in Lens, inc \in BOOLEAN, api \in {"public", "private"}, b \in Batches :
                 /\ enc' = [e1 |-> ModelEncrypt(len, inc), e2 |-> ModelEncrypt(len, inc)]
                 /\ s' = FetchInit([len |-> len, api |-> api, batch |-> b])
           /\ UNCHANGED hist
DoIssue == CanIssue(s) /\ s' = Issue(s) /\ UNCHANGED <<enc, hist>>
DoComplete == /\ CanComplete(s)
              /\ \E j \in 1..Len(s.out) : /\ s' = Complete(s, j)
                                          /\ hist' = IF Record THEN Append(hist, j) ELSE hist
              /\ UNCHANGED enc
DoDescend == CanDescend(s) /\ s' = Descend(s) /\ UNCHANGED <<enc, hist>>

Next == DoBegin \/ DoIssue \/ DoComplete \/ DoDescend
Spec == Init /\ [][Next]_vars

\* ---- clauses on the model
Canonical(len) == IF len < MinLen THEN "err" ELSE "ok"
Falsified ==
    IF s.ph # "done" THEN {}
    ELSE LET e == enc.e1 IN
         (IF C14_ChunkBound(e) \/ ("C14-cipher-padding-exceeds-max" \in KnownMask /\ KF_C14_1(e, Blk)) THEN {} ELSE {"C14_ChunkBound"})
    \cup (IF C14_ContentAddressed(e) THEN {} ELSE {"C14_ContentAddressed"})
    \cup (IF C14_Deterministic(e, enc.e2) THEN {} ELSE {"C14_Deterministic"})
    \cup (IF C14_TooSmallRejected(e) THEN {} ELSE {"C14_TooSmallRejected"})
    \cup (IF C14_Encryptable(e) THEN {} ELSE {"C14_RoundTrip"})
    \cup (IF e.res = "ok" /\ ~C14_RoundTrip(s.res) THEN {"C14_RoundTrip"} ELSE {})
    \* every schedule of the same input ends with the same result as the in-order schedule
    \cup (IF e.res = "ok" /\ ~C14_OrderIndependent(s.res, IF Levels(s.inp.len) > 1 /\ ~ReaderUnwraps THEN ResErr("InvalidDataMap") ELSE ResOk)
          THEN {"C14_OrderIndependent"} ELSE {})
NoClauseFalsified == Falsified = {}

WindowBounded == s.ph = "fetch" => (s.inp.batch = 0 \/ Len(s.out) <= s.inp.batch)
TypeOK == s.ph \in {"idle", "fetch", "done"}

\* ---- scenario output: one JSON object per finished read
Scn == [levels |-> Levels(s.inp.len),
        n1 |-> IF s.inp.len < MinLen THEN s.inp.len ELSE Count(s.inp.len, 0),
        batch |-> s.inp.batch, api |-> s.inp.api, order |-> hist,
        shape |-> IF s.inp.len < MinLen THEN <<>> ELSE Shape(s.inp.len),
        res |-> s.res.k]
Emit == (Record /\ s.ph = "done") => PrintT(<<"SCN", ToJson(Scn)>>)
=============================================================================
