-------------------------- MODULE ClientAuthTrace --------------------------
(***************************************************************************)
(* Trace specification for C15.  Each line is one call of the REAL client  *)
(* over the harness-served Network:                                        *)
(*   ChunkGet  Client::chunk_get(A) with the outcome the network layer was *)
(*             made to deliver; res.addr = id of the driver's own SHA3-256 *)
(*             of the returned bytes (1 = A, 2 = the other content)        *)
(*   DataGet   Client::data_get_public(A) with one fetch of the tree       *)
(*             answered by an adversarial holder; res.data = 1 the data    *)
(*             committed to by A, 2 the other data, 0 anything else        *)
(*   VaultGet  get_vault_from_network / fetch_and_decrypt_vault of owner P *)
(*             with the delivered outcome; res.pad = which of the received *)
(*             pads came back (identified by its decrypted bytes and the   *)
(*             returned content type); outcome.vs of a split = the order   *)
(*             in which the delivered result map iterates (order = the     *)
(*             order realised by the driver)                               *)
(* The clause operators of ClientAuth.tla decide.  Drift (not a verdict):  *)
(* the result is not one the model of the client allows.                   *)
(***************************************************************************)
EXTENDS ClientAuth, TLC, Json, IOUtils, SequencesExt

Rec == ndJsonDeserialize(IOEnv.TRACE)
N == Len(Rec)

VARIABLES l, viol, drift, stats
vars == <<l, viol, drift, stats>>

Known == {"Config", "Skipped", "ChunkGet", "DataGet", "VaultGet"}
Out(o) == [k |-> o.k, v |-> o.v, vs |-> ToSet(o.vs)]
When(c, name) == IF c THEN {name} ELSE {}

ObsRes(k, x) == IF k = "ok" THEN ResOk(x) ELSE IF k = "err" THEN ResErr ELSE [k |-> k, x |-> "none"]

Falsified(e) ==
    IF e.ev = "ChunkGet" THEN
        LET o == Out(e.outcome)  r == ObsRes(e.res.k, e.res.addr) IN
            When(~C15_ChunkAuthentic([req |-> e.req, res |-> r]), "C15_ChunkAuthentic")
       \cup When(~C15_FailClosed(\E k \in Delivered(o) : CarriesRequested(k), r), "C15_FailClosed")
    ELSE IF e.ev = "DataGet" THEN
        LET r == ObsRes(e.res.k, e.res.data) IN
            When(~C15_ChunkAuthentic([req |-> e.req, res |-> r]), "C15_ChunkAuthentic")
       \cup When(~C15_FailClosed(e.kind = "authentic" \/ ~e.hit, r), "C15_FailClosed")
    ELSE IF e.ev = "VaultGet" THEN
        LET o == Out(e.outcome)
            \* a pad whose counter is not the one of the received pad with that content is none of the received pads
            pad == IF e.res.k = "ok" /\ e.api = "get" /\ e.res.pad \in PadKinds /\ e.res.count # Counter(e.res.pad)
                   THEN "unknown" ELSE e.res.pad
            r == ObsRes(e.res.k, pad)
        IN  When(~C15_VaultAuthentic([delivered |-> Delivered(o), res |-> r]), "C15_VaultAuthentic")
       \cup When(~C15_VaultFieldsAuthentic([res |-> r]), "C15_VaultFieldsAuthentic")
       \cup When(~C15_FailClosed(\E k \in Delivered(o) : AuthenticPad(k), r), "C15_FailClosed")
    ELSE {}

Conforms(e) ==
    IF e.ev = "ChunkGet" THEN e.keyok /\ ObsRes(e.res.k, e.res.addr) \in ChunkGet(Out(e.outcome))
    ELSE IF e.ev = "DataGet" THEN ObsRes(e.res.k, e.res.data) \in (IF e.hit THEN DataGet(e.lvl, e.kind) ELSE {ResOk(1)})
    ELSE IF e.ev = "VaultGet" THEN /\ e.keyok
                                   /\ e.order = e.outcome.vs      \* the map iterates in the prescribed order
                                   /\ ObsRes(e.res.k, e.res.pad) \in VaultGetOrd(Out(e.outcome), e.order)
    ELSE e.ev # "Skipped"

Init == l = 1 /\ viol = {} /\ drift = {} /\ stats = [chunk |-> 0, data |-> 0, vault |-> 0, ok |-> 0, err |-> 0]
Next ==
    /\ l <= N
    /\ l' = l + 1
    /\ LET e == Rec[l] IN
       IF e.ev \notin Known THEN
            /\ viol' = viol \cup {[clause |-> "Malformed", line |-> l]}
            /\ UNCHANGED <<drift, stats>>
       ELSE /\ viol' = viol \cup {[clause |-> c, line |-> l] : c \in Falsified(e)}
            /\ drift' = IF Conforms(e) THEN drift ELSE drift \cup {l}
            /\ stats' = IF e.ev \in {"ChunkGet", "DataGet", "VaultGet"}
                        THEN [stats EXCEPT !.chunk = @ + (IF e.ev = "ChunkGet" THEN 1 ELSE 0),
                                           !.data = @ + (IF e.ev = "DataGet" THEN 1 ELSE 0),
                                           !.vault = @ + (IF e.ev = "VaultGet" THEN 1 ELSE 0),
                                           !.ok = @ + (IF e.res.k = "ok" THEN 1 ELSE 0),
                                           !.err = @ + (IF e.res.k = "err" THEN 1 ELSE 0)]
                        ELSE stats
Spec == Init /\ [][Next]_vars

Report == l = N + 1 =>
          ndJsonSerialize(IOEnv.OUT, << [lines |-> N, violations |-> SetToSeq(viol), drift |-> SetToSeq(drift),
                                         stats |-> stats] >>)
=============================================================================
