SPECIFICATION Spec
CONSTANTS
  ChecksAddr = TRUE
  ChecksPad = TRUE
  MaxReplies = 5
INVARIANTS NoClauseFalsified
CHECK_DEADLOCK FALSE
