SPECIFICATION Spec
CONSTANTS
  ChecksAddr = TRUE
  ChecksPad = TRUE
  WithEncoding = FALSE
  MaxReplies = 5
INVARIANTS NoClauseFalsified
CHECK_DEADLOCK FALSE
