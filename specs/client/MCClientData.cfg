\* quick, exhaustive with recorded schedules: M = 6 units, 5 entries per data-map chunk
\* lengths: Min-1, Min, 3M-1 (3 chunks), 3M, 3M+1 (4), 4M+1 (5): one level, every completion order
SPECIFICATION Spec
CONSTANTS
  M = 10
  Info = 2
  Blk = 2
  MinLen = 3
  MaxL = 4
  ReaderUnwraps = TRUE
  SortsByIndex = TRUE
  Lens = {2, 3, 29, 30, 31, 41}
  Batches = {0, 1, 2}
  Record = TRUE
  KnownMask = {"C14-cipher-padding-exceeds-max"}
INVARIANTS NoClauseFalsified WindowBounded TypeOK Emit
CHECK_DEADLOCK FALSE
