\* simulation with recorded schedules over the multi-level shapes (replayed on the real client)
SPECIFICATION Spec
CONSTANTS
  M = 6
  Info = 2
  Blk = 2
  MinLen = 3
  MaxL = 5
  ReaderUnwraps = TRUE
  SortsByIndex = TRUE
  Lens = {19, 25, 31, 55, 61}
  Batches = {0, 1, 2}
  Record = TRUE
  KnownMask = {"C14-cipher-padding-exceeds-max"}
INVARIANTS NoClauseFalsified WindowBounded Emit
CHECK_DEADLOCK FALSE
