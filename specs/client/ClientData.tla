----------------------------- MODULE ClientData -----------------------------
(***************************************************************************)
(* Self-encrypted data of the client (property C14).                       *)
(*                                                                         *)
(* Implementation-shaped model of                                          *)
(*   autonomi/src/self_encryption.rs   encrypt, pack_data_map              *)
(*   autonomi/src/client/utils.rs      fetch_from_data_map_chunk,          *)
(*                                     fetch_from_data_map,                *)
(*                                     process_tasks_with_max_concurrency  *)
(*   autonomi/src/client/data          data_get_public, data_get           *)
(*                                                                         *)
(* Byte strings are abstract: "blob d" of an input is the source (d = 0)   *)
(* or the serialised chunk wrapper of the level-d data map (d >= 1).       *)
(* Encrypting blob d gives Count(d) chunks; the level-(d+1) data map lists *)
(* their addresses.  A data map that does not fit one chunk is wrapped in  *)
(* a chunk, serialised and self-encrypted again (pack_data_map); the last  *)
(* map is the root ("data map chunk").  Sizes are in abstract units: M =   *)
(* MAX_CHUNK_SIZE, Info = serialised size of one entry of a data map, Blk  *)
(* = cipher block (an incompressible chunk grows to the next multiple).    *)
(*                                                                         *)
(* The fetch loop: fetch the root (public reads), then per level issue the *)
(* chunk fetches in index order with at most Batch outstanding, complete   *)
(* them in ANY order, decrypt, and either return (First) or read the next  *)
(* level out of the decrypted bytes (Additional).                          *)
(*                                                                         *)
(* The clause operators C14_* are written from the statement of C14 over   *)
(* observation records; MCClientData evaluates them on the model, and      *)
(* ClientTrace on the calls recorded from the real code.                   *)
(***************************************************************************)
EXTENDS Naturals, Sequences, FiniteSets

CONSTANTS M,              \* MAX_CHUNK_SIZE
          Info,           \* size of one data-map entry
          Blk,            \* cipher block size (divides M)
          MinLen,            \* MIN_ENCRYPTABLE_BYTES
          MaxL,           \* bound on the number of levels considered
          ReaderUnwraps,  \* TRUE: additional levels are read through the chunk wrapper (what the writer produces)
          SortsByIndex    \* TRUE: decryption orders the fetched chunks by their index

\* --------------------------------------------------------------- arithmetic of self_encryption 0.30
CeilDiv(a, b) == (a + b - 1) \div b
NumChunks(s) == IF s < MinLen THEN 0 ELSE IF s < 3 * M THEN 3 ELSE CeilDiv(s, M)
\* source bytes of chunk i of a blob of s bytes (get_chunk_size; MIN_CHUNK_SIZE = 1)
SrcSize(s, i) ==
    IF s < 3 * M THEN (IF i < 3 THEN s \div 3 ELSE s - 2 * (s \div 3))
    ELSE LET n == NumChunks(s)  r == s % M IN
         IF i <= n - 2 THEN M ELSE IF r = 0 THEN M ELSE IF i = n - 1 THEN M ELSE r
\* produced (compressed, encrypted) size: the statement is silent about the compression ratio
EncSize(src, incompressible) == IF incompressible THEN Blk * (src \div Blk + 1) ELSE (src + 1) \div 2

\* size of blob d of an input of len bytes: the serialised data map of the previous blob
BlobSize(len, d) == LET f[k \in 0..d] == IF k = 0 THEN len ELSE Info * NumChunks(f[k - 1]) IN f[d]
\* pack_data_map: first level whose map fits one chunk
Levels(len) == IF len < MinLen THEN 0
               ELSE CHOOSE L \in 1..MaxL : /\ BlobSize(len, L) <= M
                                           /\ \A k \in 1..(L - 1) : BlobSize(len, k) > M
Count(len, d) == NumChunks(BlobSize(len, d))          \* chunks of blob d  (d < Levels)
Shape(len) == [d \in 1..Levels(len) |-> Count(len, Levels(len) - d)]   \* top level first

ASSUME /\ M % Blk = 0 /\ 3 * Info <= M /\ MinLen >= 1 /\ MinLen < 3 * M
ASSUME ReaderUnwraps \in BOOLEAN /\ SortsByIndex \in BOOLEAN

\* --------------------------------------------------------------- the fetch loop (one read), as operators on a state record
\*   inp      [len, api ("public" | "private"), batch (0 = unbounded)]
\*   ph       "fetch" | "done"
\*   lvl      blob whose chunks are being fetched (Levels = the root chunk itself, public reads only)
\*   nxt      next chunk index to issue          out   outstanding fetches, oldest first
\*   got      indices fetched                    inorder  completions so far arrived in index order
\*   res      [k, same, rid]
CountAt(len, lvl) == IF lvl = Levels(len) THEN 1 ELSE Count(len, lvl)
ResOk == [k |-> "ok", same |-> TRUE, rid |-> 1]
ResGarbled == [k |-> "ok", same |-> FALSE, rid |-> 2]
ResErr(e) == [k |-> "err", same |-> FALSE, rid |-> 0, e |-> e]
NoRes == [k |-> "none", same |-> FALSE, rid |-> 0]

StartLevel(s, lvl) == [s EXCEPT !.lvl = lvl, !.nxt = 1, !.out = <<>>, !.got = {}, !.inorder = TRUE]
FetchInit(inp) ==
    IF inp.len < MinLen THEN [inp |-> inp, ph |-> "done", lvl |-> 0, nxt |-> 1, out |-> <<>>, got |-> {}, inorder |-> TRUE,
                           res |-> ResErr("TooSmall")]
    ELSE StartLevel([inp |-> inp, ph |-> "fetch", lvl |-> 0, nxt |-> 1, out |-> <<>>, got |-> {}, inorder |-> TRUE, res |-> NoRes],
                    IF inp.api = "public" THEN Levels(inp.len) ELSE Levels(inp.len) - 1)

\* process_tasks_with_max_concurrency: push tasks in index order until the window is full
CanIssue(s) == /\ s.ph = "fetch" /\ s.nxt <= CountAt(s.inp.len, s.lvl)
               /\ (s.inp.batch = 0 \/ Len(s.out) < s.inp.batch)
Issue(s) == [s EXCEPT !.out = Append(s.out, s.nxt), !.nxt = s.nxt + 1]
\* the j-th oldest outstanding fetch completes (any j: the network decides)
CanComplete(s) == s.ph = "fetch" /\ ~CanIssue(s) /\ Len(s.out) > 0
Complete(s, j) ==
    LET i == s.out[j]
        biggest == IF s.got = {} THEN 0 ELSE CHOOSE x \in s.got : \A y \in s.got : y <= x
    IN [s EXCEPT !.out = SubSeq(s.out, 1, j - 1) \o SubSeq(s.out, j + 1, Len(s.out)),
                 !.got = s.got \cup {i}, !.inorder = s.inorder /\ i > biggest]
\* all chunks of the level are in: decrypt, then return or descend
CanDescend(s) == s.ph = "fetch" /\ ~CanIssue(s) /\ Len(s.out) = 0
Descend(s) ==
    LET L == Levels(s.inp.len) IN
    IF s.lvl = L THEN StartLevel(s, L - 1)                               \* the root chunk: parse the top-level map
    ELSE IF ~(SortsByIndex \/ s.inorder) THEN
         \* chunks decrypted in arrival order: the bytes are not the blob
         (IF s.lvl = 0 THEN [s EXCEPT !.ph = "done", !.res = ResGarbled]
                       ELSE [s EXCEPT !.ph = "done", !.res = ResErr("InvalidDataMap")])
    ELSE IF s.lvl = 0 THEN [s EXCEPT !.ph = "done", !.res = ResOk]        \* DataMapLevel::First: the source
    ELSE IF ReaderUnwraps THEN StartLevel(s, s.lvl - 1)                   \* DataMapLevel::Additional
    ELSE [s EXCEPT !.ph = "done", !.res = ResErr("InvalidDataMap")]       \* wrapper read as a bare level

\* --------------------------------------------------------------- observation records
\* Encrypt observation:
\*   len, min, max      input length and the two constants
\*   res                "ok" | "err" | "panic"
\*   n                  number of produced chunks (root included)
\*   rootsz, maxenc     size of the root data-map chunk / of the largest other produced chunk
\*   badaddr            produced chunks whose address is not the hash of their content
\*   dm, set            identities of the root data map bytes and of the chunk address set
ModelEncrypt(len, incompressible) ==
    IF len < MinLen THEN [len |-> len, min |-> MinLen, max |-> M, res |-> "err", n |-> 0, rootsz |-> 0, maxenc |-> 0,
                       badaddr |-> 0, dm |-> 0, set |-> 0]
    ELSE LET L == Levels(len)
             sizes == UNION {{EncSize(SrcSize(BlobSize(len, d), i), incompressible) : i \in 1..Count(len, d)} : d \in 0..(L - 1)}
             Biggest(S) == CHOOSE x \in S : \A y \in S : y <= x
             total == LET c[d \in 0..(L - 1)] == IF d = 0 THEN Count(len, 0) ELSE c[d - 1] + Count(len, d) IN c[L - 1]
         IN [len |-> len, min |-> MinLen, max |-> M, res |-> "ok", n |-> total + 1, rootsz |-> BlobSize(len, L),
             maxenc |-> Biggest(sizes), badaddr |-> 0, dm |-> len, set |-> len]

\* --------------------------------------------------------------- clauses of C14 (from the statement)
\* "Every produced chunk is no larger than the maximum chunk size"
C14_ChunkBound(e) == e.res = "ok" => (e.rootsz <= e.max /\ e.maxenc <= e.max)
\* "... and is addressed by the hash of its content"
C14_ContentAddressed(e) == e.res = "ok" => e.badaddr = 0
\* "the same input always yields the same data map and chunk addresses": e2 is a second encryption of e1's input
C14_Deterministic(e1, e2) == e1.res = e2.res /\ e1.dm = e2.dm /\ e1.set = e2.set /\ e1.n = e2.n
\* "Inputs too small to self-encrypt are rejected with an error rather than mangled"
C14_TooSmallRejected(e) == e.len < e.min => (e.res = "err" /\ e.n = 0)
\* "For every byte string large enough to be self-encrypted, encrypting it ..." succeeds,
C14_Encryptable(e) == e.len >= e.min => e.res = "ok"
\* "... and then fetching and decrypting through its data map returns the original bytes, including when the
\*  data map itself must be split over several levels"; f = [k, same] result of one read of an encrypted input
C14_RoundTrip(f) == f.k = "ok" /\ f.same
\* "with chunk fetches completing in any order": two reads of the same input under different schedules agree
C14_OrderIndependent(f1, f2) == f1.k = f2.k /\ f1.rid = f2.rid

(***************************************************************************)
(* Known finding (known_findings.json).  A matcher recognises ONE pattern. *)
(* C14-cipher-padding-exceeds-max: self_encryption cuts the source into    *)
(* pieces of up to MAX_CHUNK_SIZE and then compresses and encrypts each    *)
(* piece; for incompressible content the cipher padding makes the produced *)
(* chunk up to one cipher block larger than MAX_CHUNK_SIZE.  Only that:    *)
(* the root data map within the bound, excess at most one block.           *)
(***************************************************************************)
KF_C14_1(e, blk) == /\ e.res = "ok" /\ e.rootsz <= e.max
                    /\ e.maxenc > e.max /\ e.maxenc <= e.max + blk
=============================================================================
