-------------------------- MODULE ClientDataTrace --------------------------
(***************************************************************************)
(* Trace specification for C14.  Each line is one call of the REAL code:   *)
(*   Encrypt  autonomi::self_encryption::encrypt(bytes) with what it made  *)
(*            (sizes, driver-recomputed SHA3-256 addresses, identities of  *)
(*            the data map and of the address set)                         *)
(*   Fetch    Client::data_get_public / data_get over the harness-served   *)
(*            Network, with the completion order that was imposed and the  *)
(*            returned bytes compared with the input                       *)
(* Ghost state: the first Encrypt and the first Fetch seen for every input *)
(* (the later ones of the same input must agree: Deterministic,            *)
(* OrderIndependent).  The clause operators of ClientData.tla decide.      *)
(* Drift (not a verdict): more outstanding fetches than the batch size, a  *)
(* scenario step that could not be executed as prescribed.                 *)
(***************************************************************************)
EXTENDS ClientData, TLC, Json, IOUtils, SequencesExt

CONSTANT KnownMask

Rec == ndJsonDeserialize(IOEnv.TRACE)
N == Len(Rec)

VARIABLES l, encs, fets, viol, known, drift, stats
vars == <<l, encs, fets, viol, known, drift, stats>>

\* RootSweep: the driver's search for inputs whose serialised first-level data map is MAX-1 / MAX / MAX+1 bytes (what it
\* found; the inputs themselves follow as Encrypt / Fetch lines)
Known == {"Config", "Probe", "RootSweep", "Skipped", "Encrypt", "Fetch"}

EncObs(e) == [len |-> e.len, min |-> e.min, max |-> e.max, res |-> e.res, n |-> e.n, rootsz |-> e.rootsz,
              maxenc |-> e.maxenc, badaddr |-> e.badaddr, dm |-> e.dm, set |-> e.set]
FetObs(e) == [k |-> e.res.k, same |-> e.res.same, rid |-> e.res.rid]

When(c, name) == IF c THEN {name} ELSE {}
\* [clause, kf] pairs falsified by line e ; kf = "none" or the id of the known finding whose matcher recognises it
Verdicts(e) ==
    IF e.ev = "Encrypt" THEN
        LET o == EncObs(e)
            first == {x \in encs : x.inp = e.inp}
        IN  {[clause |-> c, kf |-> "none"] :
                c \in When(~C14_ContentAddressed(o), "C14_ContentAddressed")
                 \cup When(~C14_TooSmallRejected(o), "C14_TooSmallRejected")
                 \cup When(~C14_Encryptable(o), "C14_RoundTrip")
                 \* the chunks handed out by encrypt suffice to read the input back (reference reader of the driver)
                 \cup When(e.res = "ok" /\ "refok" \in DOMAIN e /\ ~e.refok, "C14_RoundTrip")
                 \cup When(\E x \in first : ~C14_Deterministic(x.o, o), "C14_Deterministic")}
            \cup (IF C14_ChunkBound(o) THEN {}
                  ELSE {[clause |-> "C14_ChunkBound",
                         kf |-> IF KF_C14_1(o, Blk) THEN "C14-cipher-padding-exceeds-max" ELSE "none"]})
    ELSE IF e.ev = "Fetch" THEN
        LET f == FetObs(e)
            first == {x \in fets : x.inp = e.inp}
        IN  {[clause |-> c, kf |-> "none"] :
                c \in When(~C14_RoundTrip(f), "C14_RoundTrip")
                 \cup When(\E x \in first : ~C14_OrderIndependent(x.f, f), "C14_OrderIndependent")}
    ELSE {}

IsDrift(e) == \/ e.ev = "Skipped"
              \/ e.ev = "Fetch" /\ e.batch > 0 /\ e.maxout > e.batch
              \/ e.ev = "Fetch" /\ e.other > 0

Init == /\ l = 1 /\ encs = {} /\ fets = {} /\ viol = {} /\ known = {} /\ drift = {}
        /\ stats = [encrypts |-> 0, fetches |-> 0, multilevel |-> 0, ok |-> 0]
Next ==
    /\ l <= N
    /\ l' = l + 1
    /\ LET e == Rec[l] IN
       IF e.ev \notin Known THEN
            /\ viol' = viol \cup {[clause |-> "Malformed", line |-> l]}
            /\ UNCHANGED <<encs, fets, known, drift, stats>>
       ELSE LET vs == Verdicts(e) IN
            /\ viol' = viol \cup {[clause |-> v.clause, line |-> l] : v \in {y \in vs : y.kf \notin KnownMask}}
            /\ known' = known \cup {[clause |-> v.clause, line |-> l, kf |-> v.kf] : v \in {y \in vs : y.kf \in KnownMask}}
            /\ drift' = IF IsDrift(e) THEN drift \cup {l} ELSE drift
            /\ encs' = IF e.ev = "Encrypt" /\ ~(\E x \in encs : x.inp = e.inp)
                       THEN encs \cup {[inp |-> e.inp, o |-> EncObs(e)]} ELSE encs
            /\ fets' = IF e.ev = "Fetch" /\ ~(\E x \in fets : x.inp = e.inp)
                       THEN fets \cup {[inp |-> e.inp, f |-> FetObs(e)]} ELSE fets
            /\ stats' = IF e.ev = "Encrypt" THEN [stats EXCEPT !.encrypts = @ + 1]
                        ELSE IF e.ev = "Fetch" THEN [stats EXCEPT !.fetches = @ + 1,
                                                                  !.multilevel = @ + (IF e.levels > 1 THEN 1 ELSE 0),
                                                                  !.ok = @ + (IF e.res.k = "ok" /\ e.res.same THEN 1 ELSE 0)]
                        ELSE stats
Spec == Init /\ [][Next]_vars

Report == l = N + 1 =>
          ndJsonSerialize(IOEnv.OUT, << [lines |-> N, violations |-> SetToSeq(viol), known |-> SetToSeq(known),
                                         drift |-> SetToSeq(drift), stats |-> stats] >>)
=============================================================================
