\* sizes in the trace are bytes; the cipher block of self_encryption (AES-128-CBC, PKCS7) is 16 bytes
SPECIFICATION Spec
CONSTANTS
  M = 4096
  Info = 100
  Blk = 16
  MinLen = 3
  MaxL = 4
  ReaderUnwraps = TRUE
  SortsByIndex = TRUE
  KnownMask = {"C14-cipher-padding-exceeds-max"}
INVARIANT Report
CHECK_DEADLOCK FALSE
