--------------------------- MODULE MCClientAuth ---------------------------
(***************************************************************************)
(* Enumeration for C15: every arrival sequence of at most MaxReplies       *)
(* replies (at most 3 distinct kinds) to a chunk read (quorum 1) and to a  *)
(* vault read (majority quorum 3 of 5), every result the model of the      *)
(* network layer and of the client allows, judged by the clauses; and the  *)
(* substitution of one fetch of a data_get_public.  Writes the distinct    *)
(* (operation, delivered outcome) cases for the driver.                    *)
(***************************************************************************)
EXTENDS ClientAuth, TLC, Json, IOUtils, SequencesExt

CONSTANTS MaxReplies

SeqsOver(K, n) == UNION {[1..m -> K] : m \in 0..n}
Few(seq) == Cardinality({seq[i] : i \in 1..Len(seq)}) <= 3
VaultReplies == {r \in SeqsOver(PadKinds, MaxReplies) : Few(r)}
ChunkReplies == SeqsOver(ChunkKinds, 3)
Positions == {"root", "top", "bottom"}
SubstKinds == {"authentic", "wrongcontent", "wrongkey", "wrongkind", "missing", "paidsubst", "sibling", "siblingkey"}

VARIABLES op, replies, outcome, res, pos
vars == <<op, replies, outcome, res, pos>>

None == [k |-> "none", x |-> "none"]
Init == \/ /\ op = "ChunkGet" /\ replies \in ChunkReplies /\ outcome = Accumulate(replies, 1) /\ res = None /\ pos = "none"
        \/ /\ op = "VaultGet" /\ replies \in VaultReplies /\ outcome = Accumulate(replies, 3) /\ res = None /\ pos = "none"
        \/ /\ op = "DataGet" /\ pos \in Positions /\ replies \in {<<k>> : k \in SubstKinds}
           /\ outcome = OkOut(replies[1]) /\ res = None
DoReturn == /\ res = None
            /\ res' \in CASE op = "ChunkGet" -> ChunkGet(outcome)
                          [] op = "VaultGet" -> VaultGet(outcome)
                          [] op = "DataGet" -> DataGet(pos, replies[1])
            /\ UNCHANGED <<op, replies, outcome, pos>>
Next == DoReturn
Spec == Init /\ [][Next]_vars

Falsified ==
    IF res = None THEN {}
    ELSE IF op = "ChunkGet" THEN
           (IF C15_ChunkAuthentic([req |-> 1, res |-> res]) THEN {} ELSE {"C15_ChunkAuthentic"})
      \cup (IF C15_FailClosed(\E k \in Delivered(outcome) : CarriesRequested(k), res) THEN {} ELSE {"C15_FailClosed"})
    ELSE IF op = "DataGet" THEN
           (IF C15_ChunkAuthentic([req |-> 1, res |-> res]) THEN {} ELSE {"C15_ChunkAuthentic"})
      \cup (IF C15_FailClosed(replies[1] = "authentic", res) THEN {} ELSE {"C15_FailClosed"})
    ELSE   (IF C15_VaultAuthentic([delivered |-> Delivered(outcome), res |-> res]) THEN {} ELSE {"C15_VaultAuthentic"})
      \cup (IF C15_VaultFieldsAuthentic([res |-> res]) THEN {} ELSE {"C15_VaultFieldsAuthentic"})
      \cup (IF C15_FailClosed(\E k \in Delivered(outcome) : AuthenticPad(k), res) THEN {} ELSE {"C15_FailClosed"})
NoClauseFalsified == Falsified = {}

\* ---- cases for the driver
\* a split is delivered as a map: the driver makes the map iterate in the order of `vs`, and EVERY order is a case
OutJ(o) == [k |-> o.k, v |-> o.v, vs |-> SetToSeq(o.vs)]
OutJs(o) == IF o.k = "Split" THEN {[k |-> o.k, v |-> o.v, vs |-> p] : p \in SetToSeqs(o.vs)} ELSE {OutJ(o)}
Cases == {[op |-> "ChunkGet", outcome |-> OutJ(o)] : o \in {Accumulate(r, 1) : r \in ChunkReplies} \cup {TimeoutOut}}
    \cup UNION {{[op |-> "VaultGet", outcome |-> j] : j \in OutJs(o)} : o \in {Accumulate(r, 3) : r \in VaultReplies} \cup {TimeoutOut}}
    \cup {[op |-> "DataGet", api |-> "public", levels |-> L, lvl |-> p, idx |-> i, kind |-> k] :
             L \in 1..3, p \in Positions, i \in {"first", "mid", "last"}, k \in SubstKinds}
    \* the private read (data map in hand, no root fetch): one chunk of the top / bottom level substituted
    \cup {[op |-> "DataGet", api |-> "private", levels |-> L, lvl |-> p, idx |-> "mid", kind |-> k] :
             L \in 1..3, p \in Positions \ {"root"}, k \in SubstKinds}
ASSUME IF "CASES" \in DOMAIN IOEnv THEN ndJsonSerialize(IOEnv.CASES, SetToSeq(Cases)) ELSE TRUE
=============================================================================
