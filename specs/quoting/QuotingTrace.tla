---------------------------- MODULE QuotingTrace ----------------------------
(***************************************************************************)
(* Trace specification for the client-side collection of store quotes.     *)
(* Each `Quote` line is ONE finished call of the REAL                      *)
(* Network::get_store_quote_from_network on a client built offline: the    *)
(* harness owns the command receivers and answers the close-peers lookup   *)
(* and every SendRequest as the scenario prescribes, with real ed25519     *)
(* keypairs per simulated peer and real signed PaymentQuotes.  The line    *)
(* carries the environment (nfound, selfin, ign, resp -- peers numbered by *)
(* the harness's own ranking of closeness), the requests observed (asked)  *)
(* and the result; for every returned (peer, quote) pair the harness has   *)
(* established itself whose key the quote carries, whether the signature   *)
(* verifies under it over the recomputed bytes, whether the content is the *)
(* requested address and which peer answered with exactly these bytes.     *)
(*                                                                         *)
(* Verdict: the clause operators of Quoting.tla on the recorded call.      *)
(* Witnesses matched by a listed known deviation go to `known`.  Drift:    *)
(* the recorded call is not the call the model produces for the same       *)
(* environment.                                                            *)
(***************************************************************************)
EXTENDS Quoting, TLC, Json, IOUtils

Rec == ndJsonDeserialize(IOEnv.TRACE)
N == Len(Rec)

CONSTANT KnownMask

VARIABLES l, viol, known, drift, stats
tvars == <<l, viol, known, drift, stats>>

Kinds == {"Reset", "Quote"}
IsSeq(s) == DOMAIN s = 1..Len(s)
WfQuote(x) == x.p \in Nat /\ x.key \in Nat /\ x.sigok \in BOOLEAN /\ x.addr \in BOOLEAN /\ x.from \in Nat
WellFormed(e) ==
    IF e.ev = "Reset" THEN TRUE
    ELSE /\ e.nfound \in 0..64 /\ e.selfin \in BOOLEAN
         /\ Len(e.resp) = e.nfound /\ \A i \in 1..Len(e.resp) : e.resp[i] \in Classes
         /\ \A i \in 1..Len(e.ign) : e.ign[i] \in Nat
         /\ \A i \in 1..Len(e.asked) : e.asked[i].p \in Nat /\ e.asked[i].n \in Nat
         /\ e.res.kind \in {"Ok", "Err", "Panic"}
         /\ \A i \in 1..Len(e.res.quotes) : WfQuote(e.res.quotes[i])

CallOf(e) ==
    [nfound |-> e.nfound, selfin |-> e.selfin, ign |-> ToSet(e.ign),
     resp |-> [i \in 1..Len(e.resp) |-> e.resp[i]],
     asked |-> [i \in 1..Len(e.asked) |-> [p |-> e.asked[i].p, n |-> e.asked[i].n]],
     res |-> [kind |-> e.res.kind, e |-> e.res.e,
              quotes |-> [i \in 1..Len(e.res.quotes) |->
                             [p |-> e.res.quotes[i].p, key |-> e.res.quotes[i].key, sigok |-> e.res.quotes[i].sigok,
                              addr |-> e.res.quotes[i].addr, from |-> e.res.quotes[i].from]]]]

Stats0 == [calls |-> 0, ok |-> 0, err |-> 0, alreadypaid |-> 0, emptynotpaid |-> 0, notenough |-> 0, allignored |-> 0,
           requests |-> 0, quotes |-> 0, refused |-> 0, wrongcontent |-> 0]
Cnt(b) == IF b THEN 1 ELSE 0
Sum(f(_), s) == FoldLeft(LAMBDA acc, x : acc + f(x), 0, s)
StatsNext(c) ==
    LET sa == ShouldAsk(c)
        ap == sa # {} /\ AlreadyPaid(sa, c.resp)
    IN [stats EXCEPT !.calls = @ + 1, !.ok = @ + Cnt(c.res.kind = "Ok"), !.err = @ + Cnt(c.res.kind # "Ok"),
                     !.alreadypaid = @ + Cnt(ap /\ c.res.kind = "Ok" /\ c.res.quotes = <<>>),
                     !.emptynotpaid = @ + Cnt(~ap /\ c.res.kind = "Ok" /\ c.res.quotes = <<>>),
                     !.notenough = @ + Cnt(c.res.e = "NotEnoughPeers"),
                     !.allignored = @ + Cnt(c.res.e = "NoStoreCostResponses"),
                     !.requests = @ + Sum(LAMBDA a : a.n, c.asked),
                     !.quotes = @ + Len(c.res.quotes),
                     \* quotes a peer answered with that were (rightly or not) not handed on, already-paid calls aside
                     !.refused = @ + Cnt(~ap) * Cardinality({p \in sa : c.resp[p] \in QuoteClasses /\ p \notin Returned(c)}),
                     !.wrongcontent = @ + Sum(LAMBDA x : Cnt(~x.addr), c.res.quotes)]

Init == l = 1 /\ viol = {} /\ known = {} /\ drift = {} /\ stats = Stats0
Next ==
    /\ l <= N
    /\ l' = l + 1
    /\ LET e == Rec[l] IN
       IF e.ev \notin Kinds \/ ~WellFormed(e) THEN
            /\ viol' = viol \cup {[clause |-> "Malformed", line |-> l]}
            /\ UNCHANGED <<known, drift, stats>>
       ELSE IF e.ev = "Reset" THEN UNCHANGED <<viol, known, drift, stats>>
       ELSE LET c == CallOf(e)
                vs == Verdicts(c)
            IN /\ viol' = viol \cup {[clause |-> y.clause, line |-> l] : y \in {z \in vs : z.kf \notin KnownMask}}
               /\ known' = known \cup {[kf |-> y.kf, clause |-> y.clause, line |-> l] : y \in {z \in vs : z.kf \in KnownMask}}
               /\ drift' = IF Conforms(c) THEN drift ELSE drift \cup {l}
               /\ stats' = StatsNext(c)
Spec == Init /\ [][Next]_tvars

Report == l = N + 1 =>
          ndJsonSerialize(IOEnv.OUT, << [lines |-> N, violations |-> SetToSeq(viol), known |-> SetToSeq(known),
                                         drift |-> SetToSeq(drift), stats |-> stats] >>)
=============================================================================
