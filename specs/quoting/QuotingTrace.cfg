SPECIFICATION Spec
CONSTANTS
  CGS = 5
  Variant = "impl"
  KnownMask = {"QUO-content-address-unchecked", "QUO-empty-result-ambiguous"}
INVARIANT Report
CHECK_DEADLOCK FALSE
