SPECIFICATION Spec
CONSTANTS
  CGS = 5
  Variant = "impl"
  KSet = {4, 5, 6, 8}
  IgnSets = {{}, {1}, {2, 4}, {1, 2, 3, 4, 5, 6, 7}}
  FreePos = {3}
  FreeSet = {"GoodQuote", "ForgedSig", "OtherPeersQuote", "WrongContent", "Exists", "Error", "Unexpected", "Silent"}
  RestSet = {"GoodQuote", "Exists"}
  OrderCap = 4
  KnownMask = {"QUO-content-address-unchecked", "QUO-empty-result-ambiguous"}
INVARIANTS NoClauseFalsified ModelConforms OrderIndependent
CHECK_DEADLOCK FALSE
