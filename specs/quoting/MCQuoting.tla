----------------------------- MODULE MCQuoting -----------------------------
(***************************************************************************)
(* Model-checking harness for Quoting: TLC enumerates the environments of  *)
(* one call -- how many peers the lookup delivers (below, at and above     *)
(* CLOSE_GROUP_SIZE and the expanded group), the ignore set, and the       *)
(* response vector: the peers at the positions FreePos answer with any of  *)
(* FreeSet, the other asked peers with any of RestSet, a peer beyond the   *)
(* expanded group holds a good quote (it must not be asked).  Every        *)
(* environment is one initial state; the clauses are evaluated on the call *)
(* the model produces for it (`Bad` = clauses falsified beyond the listed  *)
(* known deviations), the loop is compared with the order-free definition  *)
(* over every visiting order (small asked sets), and the environments are  *)
(* written as scenarios for the driver (IOEnv.CASES).                      *)
(***************************************************************************)
EXTENDS Quoting, TLC, Json, IOUtils

CONSTANTS KSet,        \* values of nfound
          IgnSets,     \* ignore sets
          FreePos,     \* positions with a freely chosen answer
          FreeSet,     \* answers at the free positions
          RestSet,     \* answers at the other positions
          OrderCap,    \* order independence is checked for asked sets up to this size
          KnownMask    \* ids of the known deviations

VARIABLES nfound, ign, resp, call     \* call: the model's call for the environment (computed once)
vars == <<nfound, ign, resp, call>>

VecSet(n) ==
    LET k == Min2(n, Expanded)
        free == FreePos \cap (1..k)
        rest == (1..k) \ FreePos
    IN {[i \in 1..n |-> IF i \in free THEN f[i] ELSE IF i \in rest THEN g[i] ELSE "GoodQuote"] :
            f \in [free -> FreeSet], g \in [rest -> RestSet]}
\* when nobody is asked the answers do not matter: one vector
Vecs(n, ig) == IF AskedOf(n, ig) = {} THEN {[i \in 1..n |-> "GoodQuote"]} ELSE VecSet(n)
SelfIn(n, ig) == (n + Cardinality(ig)) % 2 = 0

Init == \E n \in KSet, ig \in IgnSets : \E r \in Vecs(n, ig) :
            nfound = n /\ ign = ig /\ resp = r /\ call = ModelCall(n, SelfIn(n, ig), ig, r)
Next == UNCHANGED vars
Spec == Init /\ [][Next]_vars

Call == call
Bad == {v.clause : v \in {y \in Verdicts(Call) : y.kf \notin KnownMask}}
NoClauseFalsified == Bad = {}
\* the model call is what recorded calls are compared with: it conforms to itself
ModelConforms == Variant = "impl" => Conforms(Call)
\* the loop over the responses in ANY order gives the order-free result
OrderIndependent ==
    LET asked == AskedOf(nfound, ign) IN
    (asked # {} /\ Cardinality(asked) <= OrderCap /\ nfound <= CGS + 1) =>     \* (the loop does not look at nfound: small ones suffice)
        \A o \in SetToSeqs(asked) : LET a == CollectInOrder(o, resp, nfound)
                                        b == Collect(nfound, ign, resp)
                                    IN a.kind = b.kind /\ a.quotes = b.quotes
Scn == [nfound |-> nfound, selfin |-> SelfIn(nfound, ign), ign |-> SetToSortSeq(ign, <), resp |-> resp]

AllScn == UNION {{[nfound |-> n, selfin |-> SelfIn(n, ig), ign |-> SetToSortSeq(ig, <), resp |-> r] : r \in Vecs(n, ig)} :
                     n \in KSet, ig \in IgnSets}
ASSUME IF "CASES" \in DOMAIN IOEnv THEN ndJsonSerialize(IOEnv.CASES, SetToSeq(AllScn)) ELSE TRUE
=============================================================================
