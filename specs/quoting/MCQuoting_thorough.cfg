SPECIFICATION Spec
CONSTANTS
  CGS = 5
  Variant = "impl"
  KSet = {1, 4, 5, 6, 7, 8, 9}
  IgnSets = {{}, {1}, {2, 4}, {1, 2, 3}, {1, 2, 3, 4, 5, 6, 7}, {1, 2, 3, 5, 6, 7}, {6, 7, 8}}
  FreePos = {1, 3, 5}
  FreeSet = {"GoodQuote", "ForgedSig", "OtherPeersQuote", "WrongContent", "Exists", "Error", "Unexpected", "Silent"}
  RestSet = {"GoodQuote", "Exists"}
  OrderCap = 4
  KnownMask = {"QUO-content-address-unchecked", "QUO-empty-result-ambiguous"}
INVARIANTS NoClauseFalsified ModelConforms OrderIndependent
CHECK_DEADLOCK FALSE
