SPECIFICATION Spec
CONSTANTS
  CGS = 5
  Variant = "nocheck"
  KSet = {5, 6}
  IgnSets = {{}, {1}}
  FreePos = {3, 5}
  FreeSet = {"GoodQuote", "ForgedSig", "OtherPeersQuote", "WrongContent", "Exists", "Error", "Unexpected", "Silent"}
  RestSet = {"GoodQuote", "Exists"}
  OrderCap = 0
  KnownMask = {"QUO-content-address-unchecked", "QUO-empty-result-ambiguous"}
INVARIANTS NoClauseFalsified
CHECK_DEADLOCK FALSE
