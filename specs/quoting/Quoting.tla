------------------------------ MODULE Quoting ------------------------------
(***************************************************************************)
(* One call of Network::get_store_quote_from_network(address, ignore_peers)*)
(* -- the client-side collection of store quotes.                          *)
(*                                                                         *)
(* Implementation-shaped model (executable operators, Mode F) of           *)
(*   ant-networking/src/lib.rs                                             *)
(*     get_store_quote_from_network   lookup, ignore filter, one           *)
(*                                    Query::GetStoreQuote per remaining   *)
(*                                    peer, the loop over the responses    *)
(*     client_get_all_close_peers_in_range_or_close_group /                *)
(*     get_all_close_peers_in_range_or_close_group / sort_peers_by_key     *)
(*                                    who is asked: the caller's own id    *)
(*                                    removed, fewer than CLOSE_GROUP_SIZE *)
(*                                    -> NotEnoughPeers, else the          *)
(*                                    CGS + CGS/2 closest                  *)
(*     send_and_get_responses         BTreeMap peer -> response            *)
(*   ant-evm/src/data_payments.rs                                          *)
(*     PaymentQuote::check_is_signed_by_claimed_peer                       *)
(*                                                                         *)
(* Peers are numbered by their closeness to the address (1 = closest), as  *)
(* the harness ranks them itself.  A call is the record                    *)
(*   nfound   peers the close-peers lookup delivered besides the caller    *)
(*   selfin   the caller's own id was among them                           *)
(*   ign      set of ignored peers (ranks)                                 *)
(*   resp     resp[p] = how peer p answers a GetStoreQuote request:        *)
(*     GoodQuote        its own quote: its key, its signature over the     *)
(*                      quote's fields, for the requested address          *)
(*     ForgedSig        its key, a signature that is not one by that key   *)
(*                      over the quote's fields                            *)
(*     OtherPeersQuote  a self-consistent quote of ANOTHER node            *)
(*     WrongContent     its own validly signed quote for another address   *)
(*     Exists           Err(RecordExists)                                  *)
(*     Error            the request fails (send_request returns Err)       *)
(*     Unexpected       another response (other query response / other    *)
(*                      protocol error inside GetStoreQuote)               *)
(*     Silent           the reply channel is dropped unanswered            *)
(*   asked    observed: <<[p, n]>> peers that were sent a GetStoreQuote    *)
(*            request and how many                                         *)
(*   res      [kind, e, quotes]: "Ok" with the returned <<[p, key, sigok,  *)
(*            addr, from]>> / "Err" with the error class.  For a returned  *)
(*            pair (p, quote): key = the peer whose public key the quote   *)
(*            carries (0 = nobody's), sigok = the signature verifies under *)
(*            the carried key over the quote's own fields, addr = the      *)
(*            quote's content is the requested address, from = the peer    *)
(*            that answered with exactly these bytes (0 = nobody) -- all   *)
(*            four established by the harness with its own keys and its    *)
(*            own byte computation, never by the code under test.          *)
(*                                                                         *)
(* The code returns Ok(empty list) for "already paid": the model's         *)
(* "AlreadyPaid" result is observed as Ok with no quotes.                  *)
(*                                                                         *)
(* Iteration order.  The responses come back as a BTreeMap keyed by peer   *)
(* id, so the loop visits them in peer-id order, not in arrival order.     *)
(* The RecordExists count only grows and the early return gives the same   *)
(* value (empty) that replaces the whole list, so the RESULT does not      *)
(* depend on the order; CollectInOrder / OrderIndependent below state and  *)
(* check this (what does depend on the order is only how many responses    *)
(* were looked at, which is not observable).  The order of the returned    *)
(* list is peer-id order; the result is compared as a set.                 *)
(***************************************************************************)
EXTENDS Naturals, FiniteSets, Sequences, SequencesExt

CONSTANT CGS,        \* CLOSE_GROUP_SIZE (5 in the code)
         Variant     \* "impl" | "nocheck" (negative control: quotes are kept without the signer check)

Expanded == CGS + CGS \div 2          \* how many of the closest are asked at most (7)
Min2(a, b) == IF a < b THEN a ELSE b

QuoteClasses == {"GoodQuote", "ForgedSig", "OtherPeersQuote", "WrongContent"}
Classes == QuoteClasses \cup {"Exists", "Error", "Unexpected", "Silent"}

\* ---- quotes over an ideal signature: [key, sigok, addr]
OtherOf(p, nfound) == (p % nfound) + 1
QuoteOf(p, cls, nfound) ==
    CASE cls = "GoodQuote"       -> [key |-> p, sigok |-> TRUE, addr |-> TRUE]
      [] cls = "ForgedSig"       -> [key |-> p, sigok |-> FALSE, addr |-> TRUE]
      [] cls = "OtherPeersQuote" -> [key |-> OtherOf(p, nfound), sigok |-> TRUE, addr |-> TRUE]
      [] cls = "WrongContent"    -> [key |-> p, sigok |-> TRUE, addr |-> FALSE]
\* (C13) a quote verifies for peer p: it carries p's public key and a signature by it over exactly the quote's content
Verifies(q, p) == q.key = p /\ q.sigok
\* PaymentQuote::check_is_signed_by_claimed_peer(peer) as the model has it
Accepts(q, p) == IF Variant = "nocheck" THEN TRUE ELSE Verifies(q, p)

\* ---- who is asked
CloseOf(nfound) == IF nfound < CGS THEN {} ELSE 1..Min2(nfound, Expanded)
AskedOf(nfound, ign) == CloseOf(nfound) \ ign

\* "once the RecordExists answers reach half of the asked peers" (close_nodes.len() / 2, integer division; the count
\* is compared only when a RecordExists answer arrives, so no RecordExists answer never means already paid)
Half(n) == n \div 2
ExistsCount(asked, resp) == Cardinality({p \in asked : resp[p] = "Exists"})
AlreadyPaid(asked, resp) == ExistsCount(asked, resp) >= 1 /\ ExistsCount(asked, resp) >= Half(Cardinality(asked))

ErrR(e) == [kind |-> "Err", e |-> e, quotes |-> {}]
Kept(asked, resp, nfound) ==
    {[p |-> p, q |-> QuoteOf(p, resp[p], nfound)] : p \in {x \in asked : resp[x] \in QuoteClasses /\ Accepts(QuoteOf(x, resp[x], nfound), x)}}

\* the result of the call: [kind |-> "Quotes" | "AlreadyPaid" | "Err", e, quotes (set of [p, q])]
Collect(nfound, ign, resp) ==
    IF nfound < CGS THEN ErrR("NotEnoughPeers")
    ELSE LET asked == AskedOf(nfound, ign) IN
         IF asked = {} THEN ErrR("NoStoreCostResponses")
         ELSE IF AlreadyPaid(asked, resp) THEN [kind |-> "AlreadyPaid", e |-> "", quotes |-> {}]
         ELSE [kind |-> "Quotes", e |-> "", quotes |-> Kept(asked, resp, nfound)]

\* the loop as the code has it, over the responses in a given order (a sequence without repetition of the asked peers)
CollectInOrder(order, resp, nfound) ==
    LET n == Len(order)
        step(acc, p) ==
            IF acc.done THEN acc
            ELSE IF resp[p] \in QuoteClasses THEN
                 (IF Accepts(QuoteOf(p, resp[p], nfound), p)
                  THEN [acc EXCEPT !.quotes = @ \cup {[p |-> p, q |-> QuoteOf(p, resp[p], nfound)]}] ELSE acc)
            ELSE IF resp[p] = "Exists" THEN
                 (IF acc.ex + 1 >= Half(n) THEN [acc EXCEPT !.ex = @ + 1, !.done = TRUE, !.quotes = {}]
                  ELSE [acc EXCEPT !.ex = @ + 1])
            ELSE acc
        fin == FoldLeft(step, [ex |-> 0, done |-> FALSE, quotes |-> {}], order)
    IN IF fin.done THEN [kind |-> "AlreadyPaid", e |-> "", quotes |-> {}] ELSE [kind |-> "Quotes", e |-> "", quotes |-> fin.quotes]

(***************************************************************************)
(* Clauses (documented intent) over a finished call c.                     *)
(***************************************************************************)
AskedSet(c) == {c.asked[i].p : i \in DOMAIN c.asked}
Returned(c) == {c.res.quotes[i].p : i \in DOMAIN c.res.quotes}
IsOk(c) == c.res.kind = "Ok"
ShouldAsk(c) == AskedOf(c.nfound, c.ign)
RespOf(c, p) == IF p \in DOMAIN c.resp THEN c.resp[p] ELSE "None"

\* C13: every (peer, quote) pair handed to the caller verifies for exactly that peer -- the quote's key derives to the
\* peer id and the signature is valid under it over the quote's own fields
C13_ClientQuotesBound(c) ==
    \A i \in DOMAIN c.res.quotes : Verifies([key |-> c.res.quotes[i].key, sigok |-> c.res.quotes[i].sigok], c.res.quotes[i].p)

Quo_IgnoredNeverAsked(c) == AskedSet(c) \cap c.ign = {}
Quo_IgnoredNeverReturned(c) == Returned(c) \cap c.ign = {}
\* every close peer ignored <=> NoStoreCostResponses, and then nobody is asked
Quo_AllIgnoredIsError(c) ==
    LET all == c.nfound >= CGS /\ ShouldAsk(c) = {} IN
    /\ (all => c.res.kind = "Err" /\ c.res.e = "NoStoreCostResponses" /\ c.asked = <<>>)
    /\ (c.res.e = "NoStoreCostResponses" => all)
\* an empty result means "already paid": it is returned iff the RecordExists answers reached half of the asked peers
Quo_AlreadyPaidRule(c) ==
    (IsOk(c) /\ ShouldAsk(c) # {}) => ((c.res.quotes = <<>>) <=> AlreadyPaid(ShouldAsk(c), c.resp))
\* no quote from a peer that did not answer with one (and exactly the one it answered with); at most one per peer
Quo_OnlyAnswersReturned(c) ==
    /\ \A i \in DOMAIN c.res.quotes : LET x == c.res.quotes[i] IN
           x.p \in AskedSet(c) /\ RespOf(c, x.p) \in QuoteClasses /\ x.from = x.p
    /\ \A i, j \in DOMAIN c.res.quotes : c.res.quotes[i].p = c.res.quotes[j].p => i = j
\* a failed / unexpected / missing answer of one peer neither fails the call nor costs another peer's valid quote
Quo_ErrorsSkipped(c) ==
    ShouldAsk(c) # {} =>
        /\ IsOk(c)
        /\ (~AlreadyPaid(ShouldAsk(c), c.resp) => \A p \in ShouldAsk(c) : c.resp[p] = "GoodQuote" => p \in Returned(c))
\* fewer than CLOSE_GROUP_SIZE peers besides the caller <=> NotEnoughPeers, and then nobody is asked
Quo_NotEnoughPeers(c) ==
    /\ (c.nfound < CGS => c.res.kind = "Err" /\ c.res.e = "NotEnoughPeers" /\ c.asked = <<>>)
    /\ (c.res.e = "NotEnoughPeers" => c.nfound < CGS)
\* exactly the CGS + CGS/2 closest that are not ignored are asked, each once
Quo_AskedClosest(c) ==
    /\ AskedSet(c) = ShouldAsk(c)
    /\ \A i, j \in DOMAIN c.asked : c.asked[i].p = c.asked[j].p => i = j
    /\ \A i \in DOMAIN c.asked : c.asked[i].n = 1
\* a quote handed to the caller is a quote for the address the caller asked about
Quo_ContentMatches(c) == \A i \in DOMAIN c.res.quotes : c.res.quotes[i].addr

Clauses == {"C13_ClientQuotesBound", "Quo_IgnoredNeverAsked", "Quo_IgnoredNeverReturned", "Quo_AllIgnoredIsError",
            "Quo_AlreadyPaidRule", "Quo_OnlyAnswersReturned", "Quo_ErrorsSkipped", "Quo_NotEnoughPeers", "Quo_AskedClosest",
            "Quo_ContentMatches"}
Holds(name, c) ==
    CASE name = "C13_ClientQuotesBound" -> C13_ClientQuotesBound(c)
      [] name = "Quo_IgnoredNeverAsked" -> Quo_IgnoredNeverAsked(c)
      [] name = "Quo_IgnoredNeverReturned" -> Quo_IgnoredNeverReturned(c)
      [] name = "Quo_AllIgnoredIsError" -> Quo_AllIgnoredIsError(c)
      [] name = "Quo_AlreadyPaidRule" -> Quo_AlreadyPaidRule(c)
      [] name = "Quo_OnlyAnswersReturned" -> Quo_OnlyAnswersReturned(c)
      [] name = "Quo_ErrorsSkipped" -> Quo_ErrorsSkipped(c)
      [] name = "Quo_NotEnoughPeers" -> Quo_NotEnoughPeers(c)
      [] name = "Quo_AskedClosest" -> Quo_AskedClosest(c)
      [] name = "Quo_ContentMatches" -> Quo_ContentMatches(c)

(***************************************************************************)
(* Deviations of the UNCHANGED tree from the intent, outside C13 (kept in  *)
(* /verif/findings, printed as SPEC-DEVIATION (known ...)):                *)
(*  QUO-content-address-unchecked   the content address of a quote is not  *)
(*      compared with the address asked about: a validly signed quote of   *)
(*      the answering peer for another address is handed to the caller     *)
(*  QUO-empty-result-ambiguous      "already paid" is the empty list, and  *)
(*      the empty list is also what is returned when no asked peer gave a  *)
(*      quote that verifies (all failed / forged / silent) although fewer  *)
(*      than half said RecordExists                                        *)
(***************************************************************************)
KF_Content == "QUO-content-address-unchecked"
KF_Empty == "QUO-empty-result-ambiguous"
KfOf(name, c) ==
    IF name = "Quo_ContentMatches"
       /\ \A i \in DOMAIN c.res.quotes : ~c.res.quotes[i].addr => RespOf(c, c.res.quotes[i].p) = "WrongContent"
    THEN KF_Content
    ELSE IF name = "Quo_AlreadyPaidRule" /\ c.res.quotes = <<>> /\ ~AlreadyPaid(ShouldAsk(c), c.resp)
            /\ \A p \in ShouldAsk(c) : c.resp[p] \notin {"GoodQuote", "WrongContent"}
    THEN KF_Empty
    ELSE ""
Verdicts(c) == {[clause |-> name, kf |-> KfOf(name, c)] : name \in {n \in Clauses : ~Holds(n, c)}}

\* ---- the call the model produces for (nfound, selfin, ign, resp): what the recorded calls are compared with
ModelCall(nfound, selfin, ign, resp) ==
    LET r == Collect(nfound, ign, resp)
        asked == IF r.kind = "Err" THEN {} ELSE AskedOf(nfound, ign)
        qs == SetToSortSeq(r.quotes, LAMBDA a, b : a.p < b.p)
    IN [nfound |-> nfound, selfin |-> selfin, ign |-> ign, resp |-> resp,
        asked |-> [i \in 1..Cardinality(asked) |-> [p |-> SetToSortSeq(asked, <)[i], n |-> 1]],
        res |-> [kind |-> IF r.kind = "Err" THEN "Err" ELSE "Ok", e |-> r.e,
                 quotes |-> [i \in 1..Len(qs) |-> [p |-> qs[i].p, key |-> qs[i].q.key, sigok |-> qs[i].q.sigok,
                                                   addr |-> qs[i].q.addr, from |-> qs[i].p]]]]
\* drift predicate: a recorded call equals the model's call for the same environment (quotes compared as a set)
QuoteSet(c) == {c.res.quotes[i] : i \in DOMAIN c.res.quotes}
Conforms(c) ==
    LET m == ModelCall(c.nfound, c.selfin, c.ign, c.resp) IN
    /\ c.res.kind = m.res.kind /\ c.res.e = m.res.e
    /\ QuoteSet(c) = QuoteSet(m) /\ Len(c.res.quotes) = Len(m.res.quotes)
    /\ {<<c.asked[i].p, c.asked[i].n>> : i \in DOMAIN c.asked} = {<<m.asked[i].p, m.asked[i].n>> : i \in DOMAIN m.asked}
=============================================================================
