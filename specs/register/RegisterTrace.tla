---------------------------- MODULE RegisterTrace ----------------------------
(***************************************************************************)
(* Trace specification for C06.  Every line of the trace is one call of    *)
(* the real code (ant-registers SignedRegister / RegisterCrdt, real BLS    *)
(* keys) with its result and the projected state of the replica touched.   *)
(* The specification is deterministic: it consumes one line per step,      *)
(* advances the ghost state the clauses need (what each replica has been   *)
(* given and accepted, the last observed state of every replica, which     *)
(* operations are valid for which base register -- from the attributes the *)
(* driver chose when it built them, never from the code's own answers),    *)
(* evaluates the clause operators of Register.tla and reports the          *)
(* (clause, line, facts) triples on which a clause is false.               *)
(*                                                                         *)
(* Fillers (valid root operations of the owner, pre-loaded so that the     *)
(* real limit of 1024 entries is within reach) are abstracted to a count:  *)
(* every replica holds a prefix of one filler list, so a count stands for  *)
(* a set; "operation set" = [ops, nf], "value" = [read, nfr].              *)
(***************************************************************************)
EXTENDS Naturals, Sequences, FiniteSets, TLC, Json, CSV, IOUtils, SequencesExt

Rec == ndJsonDeserialize(IOEnv.TRACE)
N == Len(Rec)

VARIABLES l, g, nviol, ndrift, stat, ntr
vars == <<l, g, nviol, ndrift, stat, ntr>>

\* the operators of Register.tla (parts 1 and 2); its state machine is not used here
R == INSTANCE Register WITH Replicas <- {}, Pool <- <<>>, Limit <- 0, MaxDepth <- 0, InitBases <- {}, Crafts <- {},
                            base <- <<>>, ops <- <<>>, given <- <<>>, lim <- FALSE, out <- <<>>, hist <- <<>>

S(seq) == {seq[i] : i \in 1..Len(seq)}
Max2(a, b) == IF a > b THEN a ELSE b
Name == [Ok |-> "Ok", TooManyEntries |-> "Err:TooManyEntries", EntryTooBig |-> "Err:EntryTooBig",
         AccessDenied |-> "Err:AccessDenied", InvalidSignature |-> "Err:InvalidSignature",
         DifferentBaseRegister |-> "Err:DifferentBaseRegister", RegisterAddrMismatch |-> "Err:RegisterAddrMismatch"]
Names(set) == {Name[x] : x \in set}

Events == {"Reset", "AddOp", "Merge", "VerifiedMerge", "VerifiedMergeCrafted", "Verify", "Read", "Law", "Tampered", "BaseProbe"}
Clauses == {"C06_MergeCommutes", "C06_MergeAssoc", "C06_MergeIdem", "C06_Converge", "C06_AuthorisedAdd",
            "C06_AuthorisedMerge", "C06_Authorised", "C06_Closure", "C06_OwnerSigned"}

\* ---- observed values
OpSet(o) == [ops |-> S(o.ops), nf |-> o.nf, pre |-> o.prefix]   \* pre: the fillers held are a prefix of the filler list
Value(o) == [read |-> S(o.read), nfr |-> o.nfr]
Obs(o) == [os |-> OpSet(o), val |-> Value(o), rerr |-> o.rerr]
LawVal(x) == [ok |-> x.ok, ops |-> OpSet(x), read |-> Value(x)]
WellFormedObs(o) == 0 \notin S(o.ops) /\ 0 \notin S(o.read)
Count(os) == os.nf + Cardinality(os.ops)

\* ---- ghost state set up by a Reset event
PoolOf(e) == [i \in 1..Len(e.pool) |->
                 [signer |-> e.pool[i].signer, sigOk |-> e.pool[i].sigOk, big |-> e.pool[i].big,
                  deps |-> S(e.pool[i].deps), addr |-> e.pool[i].addr, node |-> e.pool[i].node]]
BaseOfJ(b) == [addr |-> b.addr, open |-> b.open, writers |-> S(b.writers), sigOk |-> b.sigOk]
ResetGhost(e) ==
    [P |-> PoolOf(e),
     B |-> [r \in 1..Len(e.bases) |-> BaseOfJ(e.bases[r])],
     limit |-> e.limit,
     run |-> e.run,
     cur |-> [r \in 1..Len(e.bases) |-> Obs(e.obs[r])],
     \* what each replica has been given and accepted (the pre-loaded fillers were given through add_op)
     given |-> [r \in 1..Len(e.bases) |-> [ops |-> {}, nf |-> e.obs[r].nf]],
     \* some accepted merge has changed the replica's operation set
     merged |-> [r \in 1..Len(e.bases) |-> FALSE]]
NoGhost == [P |-> <<>>, B |-> <<>>, limit |-> 0, run |-> 0, cur |-> <<>>, given |-> <<>>, merged |-> <<>>]

Reps == DOMAIN g.B
Ok(e) == e.res = "Ok"
StateChanging(e) == e.ev \in {"AddOp", "Merge", "VerifiedMerge", "VerifiedMergeCrafted", "Read"}

\* what replica e.r has been given once event e is over
GivenAfter(e) ==
    LET gv == g.given[e.r] IN
    CASE e.ev = "AddOp" /\ Ok(e) -> [gv EXCEPT !.ops = @ \cup {e.o}]
      [] e.ev \in {"Merge", "VerifiedMerge"} /\ Ok(e) ->
             [ops |-> gv.ops \cup g.cur[e.s].os.ops, nf |-> Max2(gv.nf, g.cur[e.s].os.nf)]
      [] e.ev = "VerifiedMergeCrafted" /\ Ok(e) -> [ops |-> gv.ops \cup S(e.cs), nf |-> Max2(gv.nf, e.cnf)]
      [] OTHER -> gv

NextGhost(e) ==
    IF e.ev = "Reset" THEN ResetGhost(e)
    ELSE IF StateChanging(e)
    THEN [g EXCEPT !.cur[e.r] = Obs(e.obs),
                   !.given[e.r] = GivenAfter(e),
                   !.merged[e.r] = @ \/ (e.ev \notin {"AddOp", "Read"} /\ Ok(e) /\ OpSet(e.obs) # g.cur[e.r].os)]
    ELSE g

\* ---- clause evaluations of one event: set of [c, ok, nt, f]  (clause, holds, non-trivial, facts)
Ev(c, ok, nt, f) == [c |-> c, ok |-> ok, nt |-> nt, f |-> f, id |-> 0]
NoFacts == [res |-> "", count |-> 0, limit |-> 0, merged |-> FALSE, reasons |-> <<>>]

\* reasons why the operations that entered (and the delivered one, if it had to be rejected) are invalid
ReasonsOf(b, entered, extra) ==
    SetToSeq(UNION {R!Reasons(g.P, b, o) : o \in {x \in entered \cup extra : ~R!Valid(g.P, b, x)}})

ClosureEv(res, os, merged) ==
    Ev("C06_Closure", R!C06_Closure(res), TRUE,
       [NoFacts EXCEPT !.res = res, !.count = Count(os), !.limit = g.limit, !.merged = merged])

ConvergeEvs(e) ==
    LET r == e.r  gr == GivenAfter(e)  o == Obs(e.obs) IN
    { [Ev("C06_Converge",
          R!C06_Converge(g.B[r], g.B[s], gr, g.given[s], o.os, g.cur[s].os, o.val, g.cur[s].val),
          R!SameBase(g.B[r], g.B[s]) /\ gr = g.given[s] /\ gr.ops # {},
          NoFacts) EXCEPT !.id = s] : s \in Reps \ {r} }

VerEvs(e) == IF e.obs.ver = "skip" THEN {}
             ELSE {[ClosureEv(e.obs.ver, OpSet(e.obs), NextGhost(e).merged[e.r]) EXCEPT !.id = 1]}

Evaluations(e) ==
    CASE e.ev = "Tampered" ->
           \* a copy of an authorised operation whose content (entry / causal parents / address) was rewritten
           \* while the signature was kept is not signed by a permitted signer: it must not enter, and
           \* verify() must not accept a register assembled with it
           { Ev("C06_AuthorisedAdd", e.open \/ (e.res # "Ok" /\ e.ver # "Ok"), ~e.open,
                [NoFacts EXCEPT !.res = e.res, !.reasons = <<"tampered:" \o e.kind>>]) }
      [] e.ev = "BaseProbe" ->
           \* replica r's base register with its permissions / meta / owner swapped, presented with the signature the
           \* owner gave the genuine base: not owner-signed, so verify(), verify_with_address() and verified_merge()
           \* (into a replica of the same altered base, and into the honest replica) must refuse it and nothing enters
           { Ev("C06_OwnerSigned", R!C06_OwnerSigned(~e.differs, {e.ver, e.vwa, e.vm, e.vmh}, e.entered + e.hentered),
                e.differs /\ e.ctl = "Ok",
                [NoFacts EXCEPT !.res = e.ver, !.count = e.entered + e.hentered, !.reasons = <<"base:" \o e.kind>>]) }
      [] e.ev = "AddOp" ->
           LET b == g.B[e.r]  before == g.cur[e.r].os.ops  after == S(e.obs.ops) IN
           { Ev("C06_AuthorisedAdd", R!C06_AuthorisedAdd(g.P, b, e.o, e.res, before, after),
                ~R!Valid(g.P, b, e.o) \/ after # before,
                [NoFacts EXCEPT !.res = e.res, !.reasons = ReasonsOf(b, after \ before, {e.o})]) }
           \cup ConvergeEvs(e) \cup VerEvs(e)
      [] e.ev \in {"Merge", "VerifiedMerge"} ->
           LET b == g.B[e.r]  bs == g.B[e.s]  before == g.cur[e.r].os.ops  after == S(e.obs.ops) IN
           { Ev("C06_AuthorisedMerge", R!C06_AuthorisedMerge(g.P, b, bs, e.res, before, after),
                ~R!SameBase(b, bs) \/ after # before,
                [NoFacts EXCEPT !.res = e.res, !.reasons = ReasonsOf(b, after \ before, {})]) }
           \cup (IF e.ev = "VerifiedMerge" /\ R!SameBase(b, bs)
                 THEN LET src == g.cur[e.s].os  mine == g.cur[e.r].os
                          fits == Max2(src.nf, mine.nf) + Cardinality(src.ops \cup mine.ops) <= g.limit
                      IN {[ClosureEv(e.res, src, g.merged[e.s]) EXCEPT !.ok = R!C06_ClosureMerge(e.res, fits), !.nt = fits]}
                 ELSE {})
           \cup ConvergeEvs(e) \cup VerEvs(e)
      [] e.ev = "VerifiedMergeCrafted" ->
           LET b == g.B[e.r]  before == g.cur[e.r].os.ops  after == S(e.obs.ops) IN
           { Ev("C06_Authorised", R!C06_Authorised(g.P, b, before, after),
                \E o \in S(e.cs) : ~R!Valid(g.P, b, o),
                [NoFacts EXCEPT !.res = e.res, !.reasons = ReasonsOf(b, after \ before, {})]) }
           \cup ConvergeEvs(e) \cup VerEvs(e)
      [] e.ev = "Verify" -> {ClosureEv(e.res, g.cur[e.r].os, g.merged[e.r])}
      [] e.ev = "Read" -> ConvergeEvs(e)
      [] e.ev = "Law" ->
           LET x == LawVal(e.x)  y == LawVal(e.y) IN
          (CASE e.k = "comm" /\ ~e.vm ->
                  {Ev("C06_MergeCommutes", R!C06_MergeCommutes(x, y), x.ok /\ y.ok /\ x.ops.ops # {}, NoFacts),
                   \* the CRDT replicas merged either way round, and the CRDT of the merged operation set, present
                   \* the same current values (RegisterCrdt::merge)
                   Ev("C06_MergeCommutes", (e.crdt.done /\ x.ok /\ y.ok) => (e.crdt.ab = e.crdt.ba /\ e.crdt.ab.read = e.crdt.u.read /\ e.crdt.ab.nfr = e.crdt.u.nfr),
                      e.crdt.done /\ x.ok /\ y.ok, NoFacts)}
             [] e.k = "comm" /\ e.vm ->   \* verified merges: whether each is accepted is C06_Closure's business
                  {Ev("C06_MergeCommutes", R!C06_MergeAssoc(x, y), x.ok /\ y.ok /\ x.ops.ops # {}, NoFacts)}
             [] e.k = "assoc" ->
                  {Ev("C06_MergeAssoc", R!C06_MergeAssoc(x, y), x.ok /\ y.ok /\ x.ops.ops # {}, NoFacts)}
             [] e.k = "idem" /\ ~e.vm ->
                  {Ev("C06_MergeIdem", R!C06_MergeIdem(x, y), x.ops.ops # {}, NoFacts)}
             [] e.k = "idem" /\ e.vm ->
                  {Ev("C06_MergeIdem", y.ok => R!C06_MergeIdem(x, y), y.ok /\ x.ops.ops # {}, NoFacts)})
      [] OTHER -> {}

WellFormed(e) ==
    /\ e.ev \in Events
    /\ e.ev # "Reset" => e.run = g.run
    /\ StateChanging(e) => WellFormedObs(e.obs)
    /\ e.ev = "Law" => (e.k \in {"comm", "assoc", "idem"} /\ WellFormedObs(e.x) /\ WellFormedObs(e.y))
    /\ e.ev = "Reset" => \A r \in 1..Len(e.obs) : WellFormedObs(e.obs[r])

\* ---- drift: the implementation-shaped part of the model predicts something else (never a verdict)
ExpectedOs(e) ==
    LET cur == g.cur[e.r].os IN
    IF ~Ok(e) THEN cur
    ELSE CASE e.ev = "AddOp" -> [cur EXCEPT !.ops = @ \cup {e.o}]
           [] e.ev \in {"Merge", "VerifiedMerge"} ->
                  [ops |-> cur.ops \cup g.cur[e.s].os.ops, nf |-> Max2(cur.nf, g.cur[e.s].os.nf), pre |-> TRUE]
           [] e.ev = "VerifiedMergeCrafted" -> [ops |-> cur.ops \cup S(e.cs), nf |-> Max2(cur.nf, e.cnf), pre |-> TRUE]
           [] OTHER -> cur
ExpectedRes(e) ==
    CASE e.ev = "AddOp" -> {R!AddRes(g.P, g.B[e.r], Count(g.cur[e.r].os), g.limit, e.o)}
      [] e.ev = "Merge" -> R!MergeRes(g.B[e.r], g.B[e.s])
      [] e.ev = "VerifiedMerge" ->
             R!VMergeRes(g.P, g.B[e.r], g.B[e.s], g.cur[e.s].os.ops, Count(g.cur[e.s].os), g.limit)
      [] e.ev = "VerifiedMergeCrafted" ->
             R!VMergeRes(g.P, g.B[e.r], [g.B[e.r] EXCEPT !.sigOk = e.sig], S(e.cs), e.cnf + Cardinality(S(e.cs)), g.limit)
      [] e.ev = "Verify" -> R!VerifyRes(g.P, g.B[e.r], g.cur[e.r].os.ops, Count(g.cur[e.r].os), g.limit)
Drifts(e) ==
    IF e.ev \in {"Reset", "Law", "Tampered", "BaseProbe"} \/ ~WellFormed(e) THEN {}
    ELSE (IF e.ev # "Read" /\ e.res \notin Names(ExpectedRes(e)) THEN {"result"} ELSE {})
    \* the result the model gave in the TLC scenario (only where the model allows a single result: which of
    \* several offending operations verify() meets first is left open by the model)
    \cup (IF e.ev # "Read" /\ e.exp \in DOMAIN Name /\ Cardinality(ExpectedRes(e)) = 1 /\ Name[e.exp] # e.res
          THEN {"scenario"} ELSE {})
    \cup (IF StateChanging(e) /\ OpSet(e.obs) # ExpectedOs(e) THEN {"ops"} ELSE {})
    \cup (IF StateChanging(e) /\ ( \/ S(e.obs.read) # R!ReadVal(g.P, g.B[e.r], S(e.obs.ops))
                                   \/ e.obs.nfr # e.obs.nf
                                   \/ e.obs.rerr # Cardinality(S(e.obs.ops) \ R!Applicable(g.P, g.B[e.r], S(e.obs.ops))) )
          THEN {"value"} ELSE {})

\* ---- one step per line.  Falsified clauses, drift and the runs with a non-trivial evaluation are
\* appended to IOEnv.OUT as they are found (one JSON document per line), so that the state stays small
\* however many known findings a long trace contains; the last line is the summary.
Out(rec) == CSVWrite("%1$s", <<ToJson(rec)>>, IOEnv.OUT)
Init == l = 1 /\ g = NoGhost /\ nviol = 0 /\ ndrift = 0 /\ ntr = FALSE
        /\ stat = [c \in Clauses |-> [n |-> 0, nt |-> 0]]
Next ==
    /\ l <= N
    /\ LET e == Rec[l] IN
       IF ~WellFormed(e)
       THEN /\ Out([k |-> "viol", clause |-> "Malformed", line |-> l, f |-> NoFacts])
            /\ nviol' = nviol + 1
            /\ UNCHANGED <<g, ndrift, stat, ntr>>
       ELSE LET evs == Evaluations(e)
                bad == {y \in evs : ~y.ok}
                dr == Drifts(e)
                nontrivial == \E x \in evs : x.nt
                fresh == e.ev = "Reset"
            IN
            /\ \A x \in bad : Out([k |-> "viol", clause |-> x.c, line |-> l, f |-> x.f])
            /\ \A d \in dr : Out([k |-> "drift", what |-> d, line |-> l])
            /\ (nontrivial /\ (fresh \/ ~ntr)) => Out([k |-> "nt", run |-> e.run])
            /\ nviol' = nviol + Cardinality(bad)
            /\ ndrift' = ndrift + Cardinality(dr)
            /\ stat' = [c \in Clauses |-> [n |-> stat[c].n + Cardinality({x \in evs : x.c = c}),
                                           nt |-> stat[c].nt + Cardinality({x \in evs : x.c = c /\ x.nt})]]
            /\ ntr' = IF fresh THEN nontrivial ELSE (ntr \/ nontrivial)
            /\ g' = NextGhost(e)
    /\ l' = l + 1
Spec == Init /\ [][Next]_vars

\* written once, in the state that has consumed the whole trace
Report == l = N + 1 => Out([k |-> "end", lines |-> N, stat |-> stat, nviol |-> nviol, ndrift |-> ndrift])
=============================================================================
