SPECIFICATION MCSpec
CONSTANTS
  Replicas = {1, 2, 3, 4}
  Pool <- MCPool
  PoolSize = 8
  Limit = 3
  MaxDepth = 0
  MaxLevel = 5
  InitBases <- MCInitBases
  Crafts <- CraftsQuick
  Perms = {"owner", "writer", "anyone"}
  Thirds = {"same", "perm", "addr", "owner"}
VIEW MCView
INVARIANTS MergeCommutes MergeAssoc MergeIdem Converge ClosureModKnown
PROPERTIES Authorised
CHECK_DEADLOCK FALSE
