SPECIFICATION Spec
CONSTANTS
  Replicas = {1, 2, 3}
  Pool <- MCPool
  PoolSize = 9
  Limit = 3
  MaxDepth = 10
  MaxLevel = 0
  InitBases <- MCInitBases
  Crafts <- CraftsSim
  Perms = {"owner", "writer", "anyone"}
  Thirds = {"same", "perm", "addr", "owner"}
INVARIANTS Emit
CHECK_DEADLOCK FALSE
