SPECIFICATION Spec
CONSTANTS
  Replicas = {1, 2, 3}
  Pool <- MCPool
  PoolSize = 8
  Limit = 3
  MaxDepth = 10
  MaxLevel = 0
  InitBases <- MCInitBases
  Crafts <- CraftsQuick
  Perms = {"owner", "writer", "anyone"}
  Thirds = {"same", "perm", "addr"}
INVARIANTS Emit
CHECK_DEADLOCK FALSE
