------------------------------ MODULE Register ------------------------------
(***************************************************************************)
(* Replicated registers (property C06).                                    *)
(*                                                                         *)
(* A replica is a base register (address, permissions, validity of the     *)
(* owner's signature over it) plus a set of operations.  Operations come   *)
(* from a pool and are known only by abstract attributes:                  *)
(*     signer  key id of the claimed source                                *)
(*     sigOk   the signature verifies under that key                       *)
(*     big     the entry exceeds the entry size limit                      *)
(*     addr    address (id) of the register the operation was made for     *)
(*     node    id of the Merkle-DAG node (entry + causal deps) it carries  *)
(*     deps    node ids the entry was written on top of                    *)
(* A base is [addr, open, writers, sigOk] (open = anyone can write,        *)
(* writers = key ids allowed by the owner-signed permissions).  An address *)
(* id stands for the pair (meta, owner): two ids differ when either half   *)
(* differs.                                                                *)
(*                                                                         *)
(* Part 1: what the code does (implementation-shaped; ant-registers        *)
(*         register.rs / reg_crdt.rs + crdts MerkleReg), as pure operators *)
(*         over (pool, base, op set, entry count, limit).                  *)
(* Part 2: the clauses of C06, written from the statement, as pure         *)
(*         operators over observed values -- the same text is evaluated on *)
(*         model states (MCRegister) and on traces of the real code        *)
(*         (RegisterTrace).                                                *)
(* Part 3: the state machine explored by TLC.                              *)
(***************************************************************************)
EXTENDS Naturals, Sequences, FiniteSets

\* ------------------------------------------------------------------ part 1
SameBase(b1, b2) == b1.addr = b2.addr /\ b1.open = b2.open /\ b1.writers = b2.writers

\* SignedRegister::add_op : count check (admits while count < limit), entry size, then
\* check_register_op (the operation must carry the register's address; then permissions and
\* signature -- neither when anyone can write).
AddRes(P, b, cnt, lim, o) ==
    IF cnt >= lim THEN "TooManyEntries"
    ELSE IF P[o].big THEN "EntryTooBig"
    ELSE IF P[o].addr # b.addr THEN "RegisterAddrMismatch"
    ELSE IF b.open THEN "Ok"
    ELSE IF P[o].signer \notin b.writers THEN "AccessDenied"
    ELSE IF ~P[o].sigOk THEN "InvalidSignature"
    ELSE "Ok"

\* per-operation part of SignedRegister::verify (check_register_op first, then entry size)
OpErr(P, b, o) ==
    IF P[o].addr # b.addr THEN "RegisterAddrMismatch"
    ELSE IF ~b.open /\ P[o].signer \notin b.writers THEN "AccessDenied"
    ELSE IF ~b.open /\ ~P[o].sigOk THEN "InvalidSignature"
    ELSE IF P[o].big THEN "EntryTooBig"
    ELSE "Ok"

\* SignedRegister::verify : the set of results it may give (which offending operation is met
\* first depends on the byte order of the operations) -- a register holding exactly `limit` entries
\* (what add_op can fill it to) is accepted, more is rejected.
VerifyRes(P, b, S, cnt, lim) ==
    IF cnt > lim THEN {"TooManyEntries"}
    ELSE IF ~b.sigOk THEN {"InvalidSignature"}
    ELSE LET errs == {OpErr(P, b, o) : o \in S} \ {"Ok"}
         IN IF errs = {} THEN {"Ok"} ELSE errs

\* merge / verified_merge of replica (bs, S, cntS) into one of base br: possible results
MergeRes(br, bs) == IF SameBase(br, bs) THEN {"Ok"} ELSE {"DifferentBaseRegister"}
VMergeRes(P, br, bs, S, cntS, lim) ==
    IF ~SameBase(br, bs) THEN {"DifferentBaseRegister"} ELSE VerifyRes(P, bs, S, cntS, lim)

\* RegisterCrdt: operations for another address are refused by apply_op; a node is applied once all
\* its deps are applied (MerkleReg holds the others back as orphans); the value is the set of
\* applied nodes no applied node was written on top of.
NodesOf(P, A) == {P[o].node : o \in A}
RECURSIVE Grow(_, _, _)
Grow(P, S, A) == LET B == {o \in S : P[o].deps \subseteq NodesOf(P, A)}
                 IN IF B = A THEN A ELSE Grow(P, S, B)
Applicable(P, b, S) == {o \in S : P[o].addr = b.addr}
AppliedOps(P, b, S) == Grow(P, Applicable(P, b, S), {})
ReadVal(P, b, S) == LET A == AppliedOps(P, b, S)
                    IN {n \in NodesOf(P, A) : ~\E o \in A : n \in P[o].deps}

\* ------------------------------------------------------------------ part 2
\* "its signer is permitted by the register's owner-signed permissions (or the register is open to
\*  anyone)" -- a forged signature does not make its claimed signer the signer (I5: an open
\*  register needs no signature).
Permitted(P, b, o) == b.open \/ (P[o].signer \in b.writers /\ P[o].sigOk)
\* an operation that may enter a replica of base b
Valid(P, b, o) == Permitted(P, b, o) /\ ~P[o].big /\ P[o].addr = b.addr
\* why an operation is not valid (for reports and for matching known findings)
Reasons(P, b, o) == (IF Permitted(P, b, o) THEN {} ELSE {"signer"})
               \cup (IF P[o].big THEN {"size"} ELSE {})
               \cup (IF P[o].addr = b.addr THEN {} ELSE {"address"})

\* A step that may change the operation set of a replica of base b from `before` to `after`:
\* whatever entered is valid.
C06_Authorised(P, b, before, after) == \A o \in after \ before : Valid(P, b, o)
\* delivering one operation: an invalid one is rejected and leaves the replica as it was
C06_AuthorisedAdd(P, b, o, res, before, after) ==
    /\ C06_Authorised(P, b, before, after)
    /\ ~Valid(P, b, o) => (res # "Ok" /\ after = before)
\* merging a replica of another base register is rejected and leaves the replica as it was
C06_AuthorisedMerge(P, b, bs, res, before, after) ==
    /\ C06_Authorised(P, b, before, after)
    /\ ~SameBase(b, bs) => (res # "Ok" /\ after = before)

\* "permitted by the register's OWNER-SIGNED permissions": a base register (address and permissions) whose bytes
\* are not what the owner signed carries no owner-signed permissions at all, whatever signature accompanies it.
\* `signed` = the signature presented is the owner's signature over exactly this base; `results` = what the
\* checks of such a register returned (verify, verified_merge with it as the source); `entered` = number of
\* operations that entered some replica through it.
C06_OwnerSigned(signed, results, entered) == ~signed => ("Ok" \notin results /\ entered = 0)

\* Results of merges are records [ok, ops, read]: ok = every merge call involved returned Ok.
\* x = a merged with b, y = b merged with a
C06_MergeCommutes(x, y) == /\ x.ok = y.ok
                           /\ x.ok => (x.ops = y.ops /\ x.read = y.read)
\* x = (a + b) + c, y = a + (b + c)
C06_MergeAssoc(x, y) == (x.ok /\ y.ok) => (x.ops = y.ops /\ x.read = y.read)
\* x = a merged with (a copy of) a
C06_MergeIdem(a, x) == x.ok /\ x.ops = a.ops /\ x.read = a.read

\* two replicas of the same base register that received (were given, and accepted) the same set of
\* operations hold the same set and present the same value
C06_Converge(b1, b2, given1, given2, ops1, ops2, read1, read2) ==
    (SameBase(b1, b2) /\ given1 = given2) => (ops1 = ops2 /\ read1 = read2)

\* a state reached through accepted operations and merges is accepted as valid: `res` is the
\* result of checking it (verify on its own, or as the source of another replica's verified merge)
C06_Closure(res) == res = "Ok"
\* the same for a verified merge of such a state into another replica of the register.  `fits` = the
\* merged register would be within the entry-count limit: refusing a merge whose result would not fit
\* is not a verdict on the validity of the source state.
C06_ClosureMerge(res, fits) == fits => res = "Ok"

\* ------------------------------------------------------------------ part 3
CONSTANTS Replicas,    \* honest replicas
          Pool,        \* op id -> attributes
          Limit,       \* entry-count limit (MAX_REG_NUM_ENTRIES, scaled)
          MaxDepth,    \* > 0: keep a history of at most MaxDepth calls (scenario generation);
                       \* 0: no history, the whole (finite) state space is explored
          InitBases,   \* set of functions Replicas -> base
          Crafts       \* hand-made replicas an adversary may present: records [cs, sig] =
                       \* operation set put in without any check, validity of the owner signature

OpIds == DOMAIN Pool

VARIABLES base, ops, given, lim, out, hist
vars == <<base, ops, given, lim, out, hist>>

Cnt(r) == Cardinality(ops[r])
RV(r) == ReadVal(Pool, base[r], ops[r])

Record(o) == /\ MaxDepth > 0 => Len(hist) < MaxDepth
             /\ out' = o
             /\ hist' = IF MaxDepth > 0 THEN Append(hist, o) ELSE hist

Init == /\ base \in InitBases
        /\ ops = [r \in Replicas |-> {}]
        /\ given = [r \in Replicas |-> {}]
        /\ lim = FALSE
        /\ out = [a |-> "Init"]
        /\ hist = <<>>

\* deliver operation o to replica r
AddOp(r, o) ==
    LET res == AddRes(Pool, base[r], Cnt(r), Limit, o) IN
    /\ ops' = IF res = "Ok" THEN [ops EXCEPT ![r] = @ \cup {o}] ELSE ops
    /\ given' = IF res = "Ok" THEN [given EXCEPT ![r] = @ \cup {o}] ELSE given
    /\ lim' = (lim \/ Cnt(r) >= Limit)
    /\ Record([a |-> "AddOp", r |-> r, o |-> o, res |-> res])
    /\ UNCHANGED base

\* r.merge(s), no verification of s (s is another honest replica)
Merge(r, s) ==
    \E res \in MergeRes(base[r], base[s]) :
    /\ ops' = IF res = "Ok" THEN [ops EXCEPT ![r] = @ \cup ops[s]] ELSE ops
    /\ given' = IF res = "Ok" THEN [given EXCEPT ![r] = @ \cup ops[s]] ELSE given
    /\ Record([a |-> "Merge", r |-> r, s |-> s, res |-> res])
    /\ UNCHANGED <<base, lim>>

\* r.verified_merge(s), s another honest replica
VerifiedMerge(r, s) ==
    \E res \in VMergeRes(Pool, base[r], base[s], ops[s], Cnt(s), Limit) :
    /\ ops' = IF res = "Ok" THEN [ops EXCEPT ![r] = @ \cup ops[s]] ELSE ops
    /\ given' = IF res = "Ok" THEN [given EXCEPT ![r] = @ \cup ops[s]] ELSE given
    /\ lim' = (lim \/ (SameBase(base[r], base[s]) /\ Cnt(s) > Limit))
    /\ Record([a |-> "VerifiedMerge", r |-> r, s |-> s, res |-> res])
    /\ UNCHANGED base

\* r.verified_merge(x), x a replica of r's register made by hand by an adversary: operation set cs
\* put in without any check, owner signature valid or not
VerifiedMergeCrafted(r, cs, sig) ==
    LET bx == [base[r] EXCEPT !.sigOk = sig] IN
    \E res \in VMergeRes(Pool, base[r], bx, cs, Cardinality(cs), Limit) :
    /\ ops' = IF res = "Ok" THEN [ops EXCEPT ![r] = @ \cup cs] ELSE ops
    /\ given' = IF res = "Ok" THEN [given EXCEPT ![r] = @ \cup cs] ELSE given
    /\ lim' = (lim \/ Cardinality(cs) > Limit)
    /\ Record([a |-> "VerifiedMergeCrafted", r |-> r, cs |-> cs, sig |-> sig, res |-> res])
    /\ UNCHANGED base

Verify(r) ==
    \E res \in VerifyRes(Pool, base[r], ops[r], Cnt(r), Limit) :
    /\ lim' = (lim \/ Cnt(r) > Limit)
    /\ Record([a |-> "Verify", r |-> r, res |-> res])
    /\ UNCHANGED <<base, ops, given>>

Read(r) ==
    /\ Record([a |-> "Read", r |-> r, res |-> RV(r)])
    /\ UNCHANGED <<base, ops, given, lim>>

Next == \/ \E r \in Replicas, o \in OpIds : AddOp(r, o)
        \/ \E r \in Replicas : \E s \in Replicas \ {r} : Merge(r, s)
        \/ \E r \in Replicas : \E s \in Replicas \ {r} : VerifiedMerge(r, s)
        \/ \E r \in Replicas, c \in Crafts : VerifiedMergeCrafted(r, c.cs, c.sig)
        \/ \E r \in Replicas : Verify(r)
        \/ \E r \in Replicas : Read(r)

Spec == Init /\ [][Next]_vars

\* ---------------------------------------------------------------- the clauses on the model
Val(r) == [ok |-> TRUE, ops |-> ops[r], read |-> RV(r)]
\* the model's merge of value a (base ba) with value b (base bb)
MergeVal(ba, a, bb, b) ==
    IF a.ok /\ b.ok /\ SameBase(ba, bb)
    THEN [ok |-> TRUE, ops |-> a.ops \cup b.ops, read |-> ReadVal(Pool, ba, a.ops \cup b.ops)]
    ELSE [ok |-> FALSE, ops |-> a.ops, read |-> a.read]

MergeCommutes == \A r, s \in Replicas :
    C06_MergeCommutes(MergeVal(base[r], Val(r), base[s], Val(s)), MergeVal(base[s], Val(s), base[r], Val(r)))
MergeAssoc == \A r, s, t \in Replicas :
    C06_MergeAssoc(MergeVal(base[r], MergeVal(base[r], Val(r), base[s], Val(s)), base[t], Val(t)),
                   MergeVal(base[r], Val(r), base[s], MergeVal(base[s], Val(s), base[t], Val(t))))
MergeIdem == \A r \in Replicas : C06_MergeIdem(Val(r), MergeVal(base[r], Val(r), base[r], Val(r)))
Converge == \A r, s \in Replicas :
    C06_Converge(base[r], base[s], given[r], given[s], ops[r], ops[s], RV(r), RV(s))
\* every honest replica passes verification, on its own and as the source of a verified merge
Closure ==
    /\ \A r \in Replicas : \A res \in VerifyRes(Pool, base[r], ops[r], Cnt(r), Limit) : C06_Closure(res)
    /\ \A r, s \in Replicas : (r # s /\ SameBase(base[r], base[s])) =>
          \A res \in VMergeRes(Pool, base[r], base[s], ops[s], Cnt(s), Limit) :
              C06_ClosureMerge(res, Cardinality(ops[r] \cup ops[s]) <= Limit)
\* action property: the step just taken let in only valid operations / rejected what must be rejected
AuthorisedStep ==
    \A r \in Replicas :
       /\ C06_Authorised(Pool, base[r], ops[r], ops'[r])
       /\ (out'.a = "AddOp" /\ out'.r = r) =>
              C06_AuthorisedAdd(Pool, base[r], out'.o, out'.res, ops[r], ops'[r])
       /\ (out'.a \in {"Merge", "VerifiedMerge"} /\ out'.r = r) =>
              C06_AuthorisedMerge(Pool, base[r], base[out'.s], out'.res, ops[r], ops'[r])
Authorised == [][AuthorisedStep]_vars
=============================================================================
