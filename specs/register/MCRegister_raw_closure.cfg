SPECIFICATION MCSpec
CONSTANTS
  Replicas = {1, 2, 3}
  Pool <- MCPool
  PoolSize = 7
  Limit = 3
  MaxDepth = 8
  MaxLevel = 6
  InitBases <- MCInitBases
  Crafts <- CraftsQuick
  Perms = {"anyone"}
  Thirds = {"same", "perm", "addr", "owner"}
VIEW MCView
INVARIANTS ClosureRaw
CHECK_DEADLOCK FALSE
