SPECIFICATION Spec
CONSTANTS
  Replicas = {1, 2, 3, 4}
  Pool <- MCPool
  PoolSize = 8
  Limit = 3
  MaxDepth = 14
  MaxLevel = 0
  InitBases <- MCInitBases
  Crafts <- CraftsThorough
  Perms = {"owner", "writer", "anyone"}
  Thirds = {"same", "perm", "addr"}
INVARIANTS Emit
CHECK_DEADLOCK FALSE
