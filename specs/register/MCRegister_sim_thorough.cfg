SPECIFICATION Spec
CONSTANTS
  Replicas = {1, 2, 3, 4}
  Pool <- MCPool
  PoolSize = 9
  Limit = 3
  MaxDepth = 14
  MaxLevel = 0
  InitBases <- MCInitBases
  Crafts <- CraftsThorough
  Perms = {"owner", "writer", "anyone"}
  Thirds = {"same", "perm", "addr", "owner"}
INVARIANTS Emit
CHECK_DEADLOCK FALSE
