---------------------------- MODULE MCRegister ----------------------------
(***************************************************************************)
(* Bounded model of C06: three (or four) honest replicas plus hand-made    *)
(* replicas presented by an adversary,                                     *)
(* a pool of operations covering every class named in the statement,       *)
(* every permission setting, entry-count limit scaled to 3.                *)
(*                                                                         *)
(* Keys: 1 owner, 2 writer, 3 stranger.  Addresses: 1 the register, 2      *)
(* another register of the same owner, 3 the register with the SAME meta   *)
(* as 1 owned by key 2 (the owner half of the address differs).            *)
(*                                                                         *)
(* MaxDepth = 0 (MCSpec): TLC explores every state reachable in fewer    *)
(* than MaxLevel calls (every delivery order, duplication, merge order,    *)
(* hand-made replica) and checks the clauses in every state / on every     *)
(* step.  MaxDepth > 0 with -simulate (Spec): TLC writes behaviours of     *)
(* the model (call sequences with the model's results) as replay           *)
(* scenarios to IOEnv.SCN.                                                 *)
(***************************************************************************)
EXTENDS Register, TLC, Json, CSV, IOUtils

CONSTANTS Perms, Thirds, PoolSize, MaxLevel

Op(signer, sigOk, big, deps, addr, node) ==
    [signer |-> signer, sigOk |-> sigOk, big |-> big, deps |-> deps, addr |-> addr, node |-> node]
FullPool == <<
    Op(1, TRUE,  FALSE, {},  1, 1),     \* 1 owner, root
    Op(2, TRUE,  FALSE, {},  1, 2),     \* 2 writer, root (concurrent with 1)
    Op(2, TRUE,  FALSE, {1}, 1, 3),     \* 3 writer, written on top of 1
    Op(3, TRUE,  FALSE, {},  1, 4),     \* 4 stranger (not permitted unless open)
    Op(1, FALSE, FALSE, {},  1, 5),     \* 5 claims the owner, signature does not verify
    Op(1, TRUE,  TRUE,  {},  1, 6),     \* 6 owner, oversized entry
    Op(2, TRUE,  FALSE, {},  2, 7),     \* 7 writer, made for another register (address 2)
    Op(1, TRUE,  FALSE, {3, 2}, 1, 8),  \* 8 owner, on top of 3 and 2 (chain of depth 3, joins branches)
    Op(2, TRUE,  FALSE, {},  3, 9)      \* 9 key 2, made for the register of the same meta that key 2 owns (address 3)
  >>
MCPool == [i \in 1..PoolSize |-> FullPool[i]]

WritersOf(p) == CASE p = "owner" -> {1} [] p = "writer" -> {1, 2} [] p = "anyone" -> {}
\* the owner of a register is always among its writers (Register::new): key 1 for addresses 1 and 2, key 2 for 3
OwnerOf(a) == IF a = 3 THEN 2 ELSE 1
BaseOf(p, a, sig) == [addr |-> a, open |-> p = "anyone",
                      writers |-> IF p = "anyone" THEN {} ELSE WritersOf(p) \cup {OwnerOf(a)}, sigOk |-> sig]
NextPerm(p) == CASE p = "owner" -> "writer" [] p = "writer" -> "anyone" [] p = "anyone" -> "owner"

\* replicas 1 and 2 share the register; the last honest replica is, depending on `third`, a
\* replica of the same register, of one with other permissions, of another address (other meta), or of
\* the same meta under another owner
MCInitBases ==
    { [r \in Replicas |->
          IF r = 3 /\ th = "perm" THEN BaseOf(NextPerm(p), 1, TRUE)
          ELSE IF r = 3 /\ th = "addr" THEN BaseOf(p, 2, TRUE)
          ELSE IF r = 3 /\ th = "owner" THEN BaseOf(p, 3, TRUE)
          ELSE BaseOf(p, 1, TRUE)] : p \in Perms, th \in Thirds }

MCView == <<base, ops, given, lim>>
LevelBound == TLCGet("level") < MaxLevel
\* Bounded exploration: states of level MaxLevel are not expanded.  (A CONSTRAINT would still generate
\* their successors and evaluate every invariant on each of them, without de-duplication.)
MCNext == TLCGet("level") < MaxLevel /\ Next
MCSpec == Init /\ [][MCNext]_vars

Cr(cs, sig) == [cs |-> cs, sig |-> sig]
CraftsQuick == {Cr({1, 3}, TRUE), Cr({4}, TRUE), Cr({5}, TRUE), Cr({6}, TRUE), Cr({7}, TRUE),
                Cr({1, 2, 3}, TRUE), Cr({1, 2, 3, 4}, TRUE), Cr({1}, FALSE)}
\* with the whole pool (PoolSize = 9): also operations made for the register of the other owner
CraftsSim == CraftsQuick \cup {Cr({9}, TRUE), Cr({1, 9}, TRUE), Cr({8}, TRUE)}
CraftsThorough == {Cr({o}, TRUE) : o \in 1..PoolSize}
                  \cup {Cr({1, 3}, TRUE), Cr({2, 3}, TRUE), Cr({3, 8}, TRUE), Cr({4, 5}, TRUE), Cr({1, 7}, TRUE),
                        Cr({1, 2, 3}, TRUE), Cr({1, 2, 3, 8}, TRUE), Cr({1}, FALSE), Cr({}, FALSE)}

\* ---- known finding C06-merge-exceeds-entry-limit (known_findings.json; matcher in lib/areas/register.py):
\* merge / verified_merge never check the size of the result, so a replica can come to hold more than
\* Limit entries (only by merging: add_op stops at Limit), and verify then refuses it with
\* TooManyEntries.  The closure clause is checked modulo exactly this pattern, so that any other way of
\* falsifying it is still reported by TLC.
ClosureModKnown ==
    /\ \A r \in Replicas :
          \A res \in VerifyRes(Pool, base[r], ops[r], Cnt(r), Limit) :
              C06_Closure(res) \/ (res = "TooManyEntries" /\ Cnt(r) > Limit)
    /\ \A r, s \in Replicas : (r # s /\ SameBase(base[r], base[s])) =>
          \A res \in VMergeRes(Pool, base[r], base[s], ops[s], Cnt(s), Limit) :
              \/ C06_ClosureMerge(res, Cardinality(ops[r] \cup ops[s]) <= Limit)
              \/ (res = "TooManyEntries" /\ Cnt(s) > Limit)

\* ---- scenarios (simulation runs, MaxDepth > 0): the history of every behaviour that has made
\* MaxDepth calls, with the model's results
Emit == IF "SCN" \in DOMAIN IOEnv /\ MaxDepth > 0 /\ Len(hist) = MaxDepth
        THEN CSVWrite("%1$s", <<ToJson([bases |-> base, pad |-> lim, steps |-> hist])>>, IOEnv.SCN)
        ELSE TRUE

\* ---- the closure clause without the known-finding mask (MCRegister_raw_closure.cfg): TLC must find
\* the known finding in the model itself; the counterexample is written as a scenario and replayed on
\* the code
EmitCex(h) == IF "CEX" \in DOMAIN IOEnv
              THEN CSVWrite("%1$s", <<ToJson([bases |-> base, pad |-> TRUE, steps |-> h])>>, IOEnv.CEX)
              ELSE TRUE
ClosureRaw == Closure \/ (EmitCex(hist) /\ FALSE)

ASSUME IF "POOL" \in DOMAIN IOEnv
       THEN ndJsonSerialize(IOEnv.POOL, <<[pool |-> MCPool, limit |-> Limit,
                                           replicas |-> Cardinality(Replicas)]>>)
       ELSE TRUE
=============================================================================
