SPECIFICATION Spec
CONSTANTS
  Replicas = {1, 2, 3}
  Pool <- MCPool
  PoolSize = 9
  Limit = 3
  MaxDepth = 0
  MaxLevel = 3
  InitBases <- MCInitBases
  Crafts <- CraftsSim
  Perms = {"owner", "writer", "anyone"}
  Thirds = {"same", "perm", "addr", "owner"}
VIEW MCView
CONSTRAINT LevelBound
INVARIANTS MergeCommutes MergeAssoc MergeIdem Converge ClosureModKnown
PROPERTIES Authorised
CHECK_DEADLOCK FALSE
