SPECIFICATION MCSpec
CONSTANTS
  Replicas = {1, 2, 3}
  Pool <- MCPool
  PoolSize = 7
  Limit = 3
  MaxDepth = 0
  MaxLevel = 7
  InitBases <- MCInitBases
  Crafts <- CraftsQuick
  Perms = {"owner", "writer", "anyone"}
  Thirds = {"same", "perm", "addr", "owner"}
VIEW MCView
INVARIANTS MergeCommutes MergeAssoc MergeIdem Converge ClosureModKnown
PROPERTIES Authorised
CHECK_DEADLOCK FALSE
