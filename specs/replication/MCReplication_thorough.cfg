SPECIFICATION Spec
CONSTANTS
  NN = 3
  Families = {"chunk", "pad", "txs", "reg"}
  KnownPad = TRUE
INVARIANTS StepClausesHold ConvergedWhenDone Emit
CHECK_DEADLOCK FALSE
