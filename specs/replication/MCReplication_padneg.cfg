SPECIFICATION Spec
CONSTANTS
  NN = 2
  Families = {"pad"}
  KnownPad = TRUE
INVARIANTS PadDivergenceExists
CHECK_DEADLOCK FALSE
