SPECIFICATION Spec
CONSTANTS
  NN = 3
  KnownMask = {"C09-scratchpad-versions-indistinguishable"}
INVARIANT Report
CHECK_DEADLOCK FALSE
