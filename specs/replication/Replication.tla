----------------------------- MODULE Replication -----------------------------
(***************************************************************************)
(* Periodic replication between neighbouring nodes (property C09).         *)
(*                                                                         *)
(* content[n] is what node n holds for ONE address (a scenario follows one *)
(* address of one family):                                                 *)
(*   [kind |-> "none"] | [kind |-> "chunk"] | [kind |-> "pad", c]          *)
(*   | [kind |-> "txs", ids] | [kind |-> "reg", ops]                       *)
(* Round(i): node i advertises every record it holds (key + record type)   *)
(* to its replication targets; a target fetches the record from i when it  *)
(* does not hold that very version, and stores it through the replication  *)
(* path (merge rules of NodePut).  The advertised type of a register /     *)
(* transaction record is the hash of its content; ALL scratchpads share    *)
(* one type, so two versions of a scratchpad are indistinguishable.        *)
(***************************************************************************)
EXTENDS Naturals, FiniteSets, Sequences

CONSTANT NN
Node == 1..NN
NoneC == [kind |-> "none"]

\* the advertised record type
TypeOf(c) == CASE c.kind = "none" -> <<"none">>
               [] c.kind = "chunk" -> <<"chunk">>
               [] c.kind = "pad" -> <<"pad">>
               [] c.kind = "txs" -> <<"txs", c.ids>>
               [] c.kind = "reg" -> <<"reg", c.ops>>

\* store_replicated_in_record of `theirs` at a node holding `mine`
Merge(mine, theirs) ==
    CASE theirs.kind = "chunk" -> IF mine.kind = "none" THEN theirs ELSE mine
      [] theirs.kind = "pad" -> IF mine.kind = "none" \/ (mine.kind = "pad" /\ theirs.c > mine.c) THEN theirs ELSE mine
      [] theirs.kind = "txs" -> [kind |-> "txs", ids |-> (IF mine.kind = "txs" THEN mine.ids ELSE {}) \cup theirs.ids]
      [] theirs.kind = "reg" -> [kind |-> "reg", ops |-> (IF mine.kind = "reg" THEN mine.ops ELSE {}) \cup theirs.ops]
      [] OTHER -> mine

\* what node j holds after node i's round (j # i)
AfterRound(ci, cj) == IF ci.kind = "none" \/ TypeOf(cj) = TypeOf(ci) THEN cj ELSE Merge(cj, ci)
RoundResult(content, i) == [j \in Node |-> IF j = i THEN content[i] ELSE AfterRound(content[i], content[j])]

\* what replicas ought to converge to
Join(a, b) == IF a.kind = "none" THEN b ELSE IF b.kind = "none" THEN a ELSE Merge(a, b)
RECURSIVE JoinAll(_, _)
JoinAll(content, S) == IF S = {} THEN NoneC ELSE LET n == CHOOSE x \in S : TRUE IN Join(content[n], JoinAll(content, S \ {n}))

\* ------------------------------------------------------------------ clauses (steps: before, i, after)
\* "any record a node has accepted and stored is accepted by an honest in-range neighbour with spare
\*  capacity when fetched through replication, leaving byte-identical copies of immutable data"
C09_AcceptHeld(before, i, after) ==
    \A j \in Node \ {i} : (before[i].kind # "none" /\ before[j].kind = "none") => after[j] = before[i]
\* replication never destroys or regresses what a node holds
C09_NoRegress(before, i, after) ==
    \A j \in Node : Join(before[j], after[j]) = after[j]
\* "after enough rounds both hold the same merged register or transaction set, and the scratchpad with
\*  the highest counter" -- evaluated after every node has run two rounds, against the initial contents
C09_Converge(initial, final) == \A n \in Node : final[n] = JoinAll(initial, Node)
=============================================================================
