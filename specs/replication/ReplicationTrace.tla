--------------------------- MODULE ReplicationTrace ---------------------------
(***************************************************************************)
(* Trace specification for C09: each line is one step on 2-3 REAL nodes    *)
(* wired together in-process (the harness is the transport): placement of  *)
(* a record on one node, a spoofed advertisement, one node's periodic      *)
(* replication round run to quiescence, or the final check.  `state` is    *)
(* what every node holds for the scenario's address afterwards.            *)
(***************************************************************************)
EXTENDS Replication, TLC, Json, IOUtils, SequencesExt

Rec == ndJsonDeserialize(IOEnv.TRACE)
N == Len(Rec)
CONSTANT KnownMask

VARIABLES l, prev, initial, viol, known, drift, stats
vars == <<l, prev, initial, viol, known, drift, stats>>

SetOf(seq) == {seq[i] : i \in 1..Len(seq)}
Content(j) == CASE j.kind = "none" -> NoneC
                [] j.kind = "chunk" -> [kind |-> "chunk"]
                [] j.kind = "pad" -> [kind |-> "pad", c |-> j.c]
                [] j.kind = "txs" -> [kind |-> "txs", ids |-> SetOf(j.ids)]
                [] j.kind = "reg" -> [kind |-> "reg", ops |-> SetOf(j.ops)]
                [] OTHER -> [kind |-> j.kind]
\* the scenario follows one address: the first (only) entry of `state`
StateOf(e) == [n \in Node |-> IF n <= Len(e.state[1].nodes) THEN Content(e.state[1].nodes[n]) ELSE NoneC]
BytesOf(e) == [n \in Node |-> IF n <= Len(e.state[1].nodes) THEN e.state[1].nodes[n].bytes ELSE ""]
Active(e) == 1..Len(e.state[1].nodes)
Blank == [n \in Node |-> NoneC]

When(cond, name) == IF cond THEN {name} ELSE {}
Placed(r) == CASE r.fam = "chunk" -> [kind |-> "chunk"]
               [] r.fam = "pad" -> [kind |-> "pad", c |-> r.c]
               [] r.fam = "txs" -> [kind |-> "txs", ids |-> SetOf(r.ids)]
               [] r.fam = "reg" -> [kind |-> "reg", ops |-> SetOf(r.ops)]
\* clauses falsified by a Round of node i
RoundFalsified(e) ==
    LET after == StateOf(e)  i == e.node  A == Active(e) IN
       When(\E j \in A \ {i} : prev[i].kind # "none" /\ prev[j].kind = "none" /\ after[j] # prev[i], "C09_AcceptHeld")
  \cup When(\E j \in A \ {i} : prev[i].kind = "chunk" /\ after[j].kind = "chunk" /\ BytesOf(e)[j] # BytesOf(e)[i], "C09_AcceptHeld")
  \cup When(\E j \in A : Join(prev[j], after[j]) # after[j], "C09_NoRegress")
  \* "a node advertises every record it holds to its replication targets"
  \cup When(e.held > 0 /\ ~(\A j \in A \ {i} : \E a \in SetOf(e.adverts) : a.from = i /\ a.to = j /\ a.n = e.held /\ a.holderIsSender), "C09_AdvertiseAll")
\* "acts on advertisements only from peers among its closest"
SpoofFalsified(e) == When(e.fetches # 0 \/ e.queued # 0 \/ e.inflight # 0 \/ StateOf(e) # prev, "C09_OnlyFromClose")
CheckFalsified(e) ==
    LET final == StateOf(e)  A == Active(e)
        want == JoinAll(initial, A) IN
    When(\E n \in A : final[n] # want, "C09_Converge")
\* known finding: two versions of a scratchpad carry the same advertised type and are never exchanged
KF(e, c) == IF c = "C09_Converge" /\ (\E n \in Active(e) : initial[n].kind = "pad")
               /\ (\A n \in Active(e) : StateOf(e)[n] = initial[n] \/ initial[n].kind = "none")
            THEN "C09-scratchpad-versions-indistinguishable" ELSE "none"

Init == l = 1 /\ prev = Blank /\ initial = Blank /\ viol = {} /\ known = {} /\ drift = {} /\ stats = [rounds |-> 0, fetched |-> 0]
Next ==
    /\ l <= N /\ l' = l + 1
    /\ LET e == Rec[l] IN
       CASE e.ev = "Reset" -> prev' = Blank /\ initial' = Blank /\ UNCHANGED <<viol, known, drift, stats>>
         [] e.ev = "Place" -> \* a record handed to a node through the replication path is accepted and held
                              /\ viol' = viol \cup {[clause |-> c, line |-> l] :
                                            c \in When(StateOf(e)[e.node] # Join(prev[e.node], Placed(e.rec)), "C09_AcceptHeld")}
                              /\ prev' = StateOf(e) /\ initial' = StateOf(e) /\ UNCHANGED <<known, drift, stats>>
         [] e.ev = "Spoof" -> /\ viol' = viol \cup {[clause |-> c, line |-> l] : c \in SpoofFalsified(e)}
                              /\ prev' = StateOf(e) /\ UNCHANGED <<initial, known, drift, stats>>
         [] e.ev = "Round" -> /\ viol' = viol \cup {[clause |-> c, line |-> l] : c \in RoundFalsified(e)}
                              /\ drift' = IF \A n \in Active(e) : StateOf(e)[n] = RoundResult(prev, e.node)[n] THEN drift ELSE drift \cup {l}
                              /\ stats' = [rounds |-> stats.rounds + 1,
                                           fetched |-> stats.fetched + Cardinality({n \in Active(e) : StateOf(e)[n] # prev[n]})]
                              /\ prev' = StateOf(e) /\ UNCHANGED <<initial, known>>
         [] e.ev = "Check" -> LET f == CheckFalsified(e) IN
                              /\ viol' = viol \cup {[clause |-> c, line |-> l] : c \in {x \in f : KF(e, x) \notin KnownMask}}
                              /\ known' = known \cup {[kf |-> KF(e, c), clause |-> c, line |-> l] : c \in {x \in f : KF(e, x) \in KnownMask}}
                              /\ UNCHANGED <<prev, initial, drift, stats>>
         [] OTHER -> viol' = viol \cup {[clause |-> "Malformed", line |-> l]} /\ UNCHANGED <<prev, initial, known, drift, stats>>
Spec == Init /\ [][Next]_vars
Report == l = N + 1 => ndJsonSerialize(IOEnv.OUT, << [lines |-> N, violations |-> SetToSeq(viol), known |-> SetToSeq(known),
                                                       drift |-> SetToSeq(drift), stats |-> stats] >>)
=============================================================================
