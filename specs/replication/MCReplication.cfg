SPECIFICATION Spec
CONSTANTS
  NN = 2
  Families = {"chunk", "pad", "txs", "reg"}
  KnownPad = TRUE
INVARIANTS StepClausesHold ConvergedWhenDone Emit
CHECK_DEADLOCK FALSE
