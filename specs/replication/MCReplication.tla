---------------------------- MODULE MCReplication ----------------------------
(***************************************************************************)
(* Every divergence pattern of one address between NN neighbours, every    *)
(* order of the nodes' rounds; clauses checked on the model; convergence   *)
(* after two full cycles.  KnownPad: scratchpad divergence is the listed   *)
(* known finding C09-scratchpad-versions-indistinguishable.                *)
(***************************************************************************)
EXTENDS Replication, TLC, Json, IOUtils, SequencesExt

CONSTANTS Families, KnownPad

Contents(f) == CASE f = "chunk" -> {NoneC, [kind |-> "chunk"]}
                 [] f = "pad" -> {NoneC} \cup {[kind |-> "pad", c |-> c] : c \in 1..2}
                 [] f = "txs" -> {NoneC} \cup {[kind |-> "txs", ids |-> s] : s \in (SUBSET {1, 2}) \ {{}}}
                 [] f = "reg" -> {NoneC} \cup {[kind |-> "reg", ops |-> s] : s \in SUBSET {1, 2}}

VARIABLES fam, placed, upd, initial, content, rounds, bad
vars == <<fam, placed, upd, initial, content, rounds, bad>>

\* placements: every divergence pattern; plus "synchronised, then one node accepts an update" (the update
\* is a second delivery to a node that already holds the record -- an overwrite of a held key)
NoUpd == [node |-> 0, c |-> NoneC]
Init == /\ fam \in Families
        /\ placed \in [Node -> Contents(fam)]
        /\ upd \in {NoUpd} \cup {[node |-> n, c |-> c] : n \in Node, c \in {x \in Contents(fam) : x.kind \in {"pad", "txs", "reg"}}}
        /\ (upd # NoUpd => (\A a, b \in Node : placed[a] = placed[b]) /\ placed[1].kind # "none" /\ Merge(placed[upd.node], upd.c) # placed[upd.node])
        /\ initial = [n \in Node |-> IF n = upd.node THEN Merge(placed[n], upd.c) ELSE placed[n]]
        /\ content = initial /\ rounds = <<>> /\ bad = {}
\* round-robin cycles in any order inside a cycle: a node may run its k-th round when all have run k-1
Count(i) == Cardinality({p \in 1..Len(rounds) : rounds[p] = i})
MayRun(i) == Count(i) < 2 /\ \A j \in Node : Count(j) >= Count(i)
Round(i) == /\ MayRun(i)
            /\ LET after == RoundResult(content, i) IN
               /\ content' = after
               /\ rounds' = Append(rounds, i)
               /\ bad' = (IF C09_AcceptHeld(content, i, after) THEN {} ELSE {"C09_AcceptHeld"})
                    \cup (IF C09_NoRegress(content, i, after) THEN {} ELSE {"C09_NoRegress"})
               /\ UNCHANGED <<fam, placed, upd, initial>>
Next == \E i \in Node : Round(i)
Spec == Init /\ [][Next]_vars

StepClausesHold == bad = {}
Done == Len(rounds) = 2 * NN
ConvergedWhenDone == Done => (C09_Converge(initial, content) \/ (KnownPad /\ fam = "pad"))
\* the known finding must really be there (otherwise the model does not represent the code)
PadDivergenceExists == ~(Done /\ fam = "pad" /\ ~C09_Converge(initial, content))

CJ(c) == CASE c.kind = "none" -> [fam |-> "none"]
           [] c.kind = "chunk" -> [fam |-> "chunk"]
           [] c.kind = "pad" -> [fam |-> "pad", c |-> c.c, content |-> c.c]
           [] c.kind = "txs" -> [fam |-> "txs", ids |-> SetToSeq(c.ids)]
           [] c.kind = "reg" -> [fam |-> "reg", ops |-> SetToSeq(c.ops)]
Emit == Done => PrintT(<<"SCN", ToJson([nodes |-> NN, family |-> fam, initial |-> [n \in Node |-> CJ(placed[n])],
                                         update |-> [node |-> upd.node, c |-> CJ(upd.c)], rounds |-> rounds])>>)
=============================================================================
